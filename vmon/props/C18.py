"""C18 -- any command line ends in a usable formula or a clean, shielded error.

Every execution is the real main() of one of the four tools (in-process, patched argv / streams) under
three observation points: the exception that leaves cli() (handled, swallowed or escaping), the parse
phase (parse_command_line for cnfgen / pbgen, the outermost CLIParser.parse_args for the two filters:
completed or not, left through SystemExit(0) by a help action, the parsed namespace = the selected
output and format) and what the process left behind (exit status, stdout, stderr, the files named by
'-o').  The outcome classifier (vmon.refmodels.c18_outcome + judge() below) puts each execution into

    SUCCESS    status 0, the strict reader of the selected format accepts stdout / the '-o' file
    HELP       status 0, the parser left through a help / version action, text on stdout
    CLI-ERROR  status != 0, no line of a formula on stdout or in the '-o' file, a message on stderr whose
               every non-empty line starts with the comment marker (DESIGN 4.7: the tool's default marker
               while the command line is being parsed, the marker of the selected format afterwards)

and everything else is a violation whose mechanism names (tool, phase, kind, exception type, raising
function).  A violation is reported only after a real process (cliharness.spawn) showed the same outcome
class; a sample of all classes is re-executed the same way and a disagreement indicts the harness.
"""
import hashlib
import os
import random
import shutil
import signal
import sys
import tempfile

from .. import REPO, argvcorpus
from ..cliharness import run_main, spawn, tool_module
from ..refmodels import c18_outcome as oc

PYTHON_O_STRIDE = {"quick": 4, "thorough": 2}      # every n-th case is repeated in an interpreter started with -O
RULE = ("command = (tool, argument vector, stdin kind).  grammar: the sub-commands, positional arity, types and options "
        "read from the live argparse tables of cnfgen / pbgen (33 formula and 18 transformation sub-commands), slots "
        "filled from boundary pools (-1 0 1 2 3 12 1.5 x '' and a 30-digit number where the tool answers at once), valid "
        "and mutilated graph specifications (dropped / surplus / replaced tokens, constructions of another graph type, "
        "doubled and dangling modifiers, save without target), global options valid and hostile (-o into a file / missing "
        "directory / directory, -of, -l, -q with -v, --seed, abbreviations, unknown options), missing and surplus arguments, "
        "-T chains valid and broken; k-edit mutants (k = 1..3; delete / duplicate / swap / replace / insert a token) of the "
        "valid command lines of vmon/argvcorpus.py alone and with transformations; every help switch in every position; "
        "cnfshuffle and kthlist2pebbling with option subsets, -i / -o files and valid / empty / truncated / miscounted / "
        "garbage standard input; the full table (graph slot or input option) x (file kind: valid of every format, missing, "
        "directory, empty, binary, truncated, other format, other graph type, unknown extension) x (by extension | with "
        "format keyword).  Sizes are capped syntactically (chains only on tiny bases, graph numbers <= 4, 12 only in "
        "scalar slots) so that an accepted command builds < 10^5 clauses; a CPU watchdog (SIGVTALRM, 6 s) and an address "
        "space limit turn a command that escapes the cap into a counted non-answer instead of a verdict.  The minimal command "
        "lines of all mechanisms reported so far and of the defects repaired earlier are replayed first (case 'witnesses').  "
        "One evaluation = one real main() judged by the outcome classifier; distinct = (tool, argument vector with scratch "
        "paths abstracted, stdin kind); trivial = the empty argument vector.")
ASSUMPTIONS = [
    "the strict readers vmon/refmodels/c06_dimacs.scan_output, c12_opb.read_opb, c12_latex.read_latex_document decide "
    "'a strict reader of the chosen format accepts the output' (header counts = body, literals within the declared "
    "range, nothing but comment lines around the formula)",
    "the chosen format is read from the parsed namespace (explicit -of / -l, else the extension of the -o file, else the "
    "tool's default); a command line that fails while being parsed has no chosen format and may use the tool's default "
    "marker ('c' for cnfgen, cnfshuffle, kthlist2pebbling, '*' for pbgen) -- DESIGN 4.7",
    "a line belongs to a formula when it is a DIMACS problem line or clause, an OPB header or constraint row, LaTeX "
    "document / align structure, or a comment line of one of the formats; other text on stdout next to an error "
    "(pydot's parse diagnostics) is noise, not a partial formula",
    "in-process main() with patched streams stands for the real process: every violation and a sample of every outcome "
    "class are re-executed with cliharness.spawn and must fall into the same outcome class (otherwise harness error); "
    "SyntaxWarning lines of the byte-compiler (bytecode is off) are not output of the tool",
    "non-termination and resource exhaustion are outside the classifier: numbers are capped so that every command "
    "answers within a second, the 30-digit number is used only in slots where the tool answered at once when the check was "
    "written, and a command that still uses up 6 s of CPU or 6 GB is counted under no_answer:* and not judged",
    "OverflowError / RecursionError escaping a tool are keyed without the raising function (where the interpreter gives "
    "up is incidental; the defect is the missing conversion at the command line boundary of that phase)",
    "argument strings are handed to main() as fresh objects, as a real process gets them (argparse tells 'option given' "
    "from 'default' by object identity)",
    "commands that consume randomness may legitimately fall into another class in the real process (graph arguments "
    "are drawn before --seed is applied); such a disagreement is counted, not reported",
]
SUBS = ["and", "bphp", "cliquecoloring", "count", "cpls", "dimacs", "domset", "ec", "false", "iso", "kclique", "kcliquebin",
        "kcolor", "matching", "op", "or", "parity", "peb", "php", "pitfall", "ptn", "ram", "ramlb", "randkcnf", "randkxor",
        "rphp", "stone", "subgraph", "subsetcard", "tiling", "true", "tseitin", "vdw"]
TRANS = ["anybut", "atleast", "atmost", "eq", "exact", "flip", "ite", "lift", "maj", "majcomp", "neq", "none", "one", "or",
         "shuffle", "xor", "xorcomp"]
REQUIRED = (["tool:cnfgen", "tool:pbgen", "tool:cnfshuffle", "tool:kthlist2pebbling",
             "class:SUCCESS", "class:HELP", "class:CLI-ERROR", "phase:parse", "phase:after-parse",
             "success:dimacs", "success:opb", "success:latex", "success:to-file", "success:to-stdout",
             "error:parse-phase", "error:after-parse", "error:marker:c", "error:marker:*", "error:marker:%",
             "error:noise-on-stdout-tolerated", "cli_exit:CLIError", "cli_exit:ValueError", "cli_exit:none",
             "generator:grammar", "generator:mutant", "generator:help", "generator:filter", "generator:files", "generator:witness",
             "op:delete", "op:duplicate", "op:swap", "op:replace", "op:insert", "op:boundary-number", "op:huge-number",
             "op:graph-valid", "op:graph-mutilated", "op:missing-argument", "op:surplus-argument", "op:unknown-option",
             "op:chain-valid", "op:chain-broken", "op:hostile-global-option", "op:output-missing-directory",
             "op:output-directory", "op:output-file", "op:help-switch",
             "file:valid", "file:missing", "file:directory", "file:empty", "file:binary", "file:truncated",
             "file:wrong-format", "file:wrong-type", "file:unknown-extension",
             "stdin:cnf", "stdin:kthlist", "stdin:empty", "stdin:truncated", "stdin:garbage",
             "subprocess_reexecutions", "subprocess_agreements", "subprocess_class:SUCCESS", "subprocess_class:HELP",
             "subprocess_class:ERROR", "outside_git_tree_runs", "terminal_stdin_runs"]
            + ["reached:" + s for s in SUBS] + ["reached-T:" + t for t in TRANS])
CASE_TIMEOUT = {"quick": 240, "thorough": 600}
SHARDS = {"quick": 16, "thorough": 64}
_SUBSPACES = ["(graph slot of kcolor / php / peb | dimacs <file> | cnfshuffle -i | kthlist2pebbling -i) x every file of the "
                        "scratch zoo x (path alone | each format keyword of the graph type + path): case 'files'",
                        "every help switch of every tool at top level, behind every formula sub-command and behind every "
                        "transformation: case 'help'"]
EXHAUSTIVE_SUBSPACES = {"quick": _SUBSPACES[1:], "thorough": _SUBSPACES}

HUGE = "123456789012345678901234567890"
SPAWN_ENV = {"PYTHONWARNINGS": "ignore::SyntaxWarning"}


# ---------------------------------------------------------------------------
# scratch files
# ---------------------------------------------------------------------------
KTH_SIMPLE = "4\n1 : 2 3 0\n2 : 1 0\n3 : 1 4 0\n4 : 3 0\n"
KTH_DAG = "4\n1 : 0\n2 : 0\n3 : 1 2 0\n4 : 3 0\n"
KTH_BIP = "5\n1 : 3 5 0\n2 : 4 5 0\n"
KTH_CYCLE = "2\n1 : 2 0\n2 : 1 0\n"
GML_SIMPLE = ("graph [\n node [ id 1 label \"1\" ]\n node [ id 2 label \"2\" ]\n node [ id 3 label \"3\" ]\n"
              " edge [ source 1 target 2 ]\n edge [ source 2 target 3 ]\n]\n")
GML_DAG = ("graph [\n directed 1\n node [ id 1 label \"1\" ]\n node [ id 2 label \"2\" ]\n node [ id 3 label \"3\" ]\n"
           " edge [ source 1 target 2 ]\n edge [ source 2 target 3 ]\n]\n")
DOT_SIMPLE = "graph G {\n 1 -- 2;\n 2 -- 3;\n}\n"
DOT_DAG = "digraph G {\n 1 -> 2;\n 2 -> 3;\n}\n"
DIMACS_GRAPH = "c a graph\np edge 4 3\ne 1 2\ne 1 3\ne 3 4\n"
MATRIX_BIP = "2 3\n1 0 1\n0 1 1\n"
CNF_TEXT = "c a comment\np cnf 3 2\n1 -2 0\n3 0\n"
BINARY = b"\xff\xfe\x00\x01\x80\x81garbage\x00\n\xfe"
DIR, MISSING = object(), object()

# name -> (file kind for the evidence, graph type of the content or None, content)
FILES = {
    "simple.kthlist": ("valid", "simple", KTH_SIMPLE), "simple.gml": ("valid", "simple", GML_SIMPLE),
    "simple.dot": ("valid", "simple", DOT_SIMPLE), "simple.dimacs": ("valid", "simple", DIMACS_GRAPH),
    "dag.kthlist": ("valid", "dag", KTH_DAG), "dag.gml": ("valid", "dag", GML_DAG), "dag.dot": ("valid", "dag", DOT_DAG),
    "bip.matrix": ("valid", "bipartite", MATRIX_BIP), "bip.kthlist": ("valid", "bipartite", KTH_BIP),
    "formula.cnf": ("valid", "cnf", CNF_TEXT), "noext": ("unknown-extension", "dag", KTH_DAG),
    "unknown.xyz": ("unknown-extension", "simple", KTH_SIMPLE),
    "cyclic.kthlist": ("wrong-type", "cyclic", KTH_CYCLE),
    "gmlin.kthlist": ("wrong-format", None, GML_SIMPLE), "kthin.gml": ("wrong-format", None, KTH_SIMPLE),
    "matin.dot": ("wrong-format", None, MATRIX_BIP), "dotin.matrix": ("wrong-format", None, DOT_SIMPLE),
    "kthin.dimacs": ("wrong-format", None, KTH_SIMPLE), "gmlin.matrix": ("wrong-format", None, GML_SIMPLE),
    "cnfin.kthlist": ("wrong-format", None, CNF_TEXT), "cnfin.gml": ("wrong-format", None, CNF_TEXT),
    "cnfin.matrix": ("wrong-format", None, CNF_TEXT), "cnfin.dimacs": ("wrong-format", None, CNF_TEXT),
    "kthin.cnf": ("wrong-format", None, KTH_DAG), "miscount.cnf": ("wrong-format", None, "p cnf 3 5\n1 -2 0\n"),
    "range.cnf": ("wrong-format", None, "p cnf 1 1\n1 -2 0\n"),
    "dir": ("directory", None, DIR), "dir.gml": ("directory", None, DIR), "dir.kthlist": ("directory", None, DIR),
    "dir.cnf": ("directory", None, DIR), "blankline.dimacs": ("valid", "simple", "p edge 3 2\ne 1 2\n\ne 2 3\n"),
    "missing": ("missing", None, MISSING), "missing.gml": ("missing", None, MISSING), "missing.cnf": ("missing", None, MISSING),
    "missing.kthlist": ("missing", None, MISSING),
    # names that mean something to str.format / %-formatting / a shell
    "net{v2}.kthlist": ("valid", "simple", KTH_SIMPLE), "K{}.gml": ("valid", "simple", GML_SIMPLE), "B{left}.matrix": ("valid", "bipartite", MATRIX_BIP),
    "d{0}.kthlist": ("valid", "dag", KTH_DAG), "f%s{}.cnf": ("valid", "cnf", CNF_TEXT), "100%.kthlist": ("valid", "simple", KTH_SIMPLE),
    "two words.kthlist": ("valid", "bipartite", KTH_BIP), "open{.gml": ("valid", "simple", GML_SIMPLE),
}
for _ext, _text in (("kthlist", KTH_DAG), ("gml", GML_SIMPLE), ("dot", DOT_SIMPLE), ("dimacs", DIMACS_GRAPH),
                    ("matrix", MATRIX_BIP), ("cnf", CNF_TEXT)):
    FILES["empty." + _ext] = ("empty", None, "")
    FILES["bin." + _ext] = ("binary", None, BINARY)
    FILES["trunc." + _ext] = ("truncated", None, _text[:(len(_text) * 3) // 5])
# the dot reader (pydot) echoes the offending input line on stdout: files whose lines are lines of a formula are
# never handed to it (ASSUMPTIONS: noise is tolerated, formula lines are not)
FORMULA_LIKE = {n for n, (_, _, c) in FILES.items() if isinstance(c, str) and oc.formula_fragments(c)}
GRAPH_FORMATS = {"simple": ["kthlist", "gml", "dot", "dimacs"], "dag": ["kthlist", "gml", "dot", "dimacs"],
                 "bipartite": ["kthlist", "gml", "dot", "matrix"]}


class Zoo:
    """Scratch directory: the input files above, `out/` for everything a command writes."""

    def __init__(self):
        self.root = tempfile.mkdtemp(prefix="vmon-c18-", dir="/tmp")
        self.out = os.path.join(self.root, "out")
        os.mkdir(self.out)
        self.build()

    def build(self):
        for name, (_, _, content) in FILES.items():
            p = os.path.join(self.root, name)
            if content is MISSING:
                continue
            if content is DIR:
                os.makedirs(p, exist_ok=True)
                continue
            with open(p, "wb") as f:
                f.write(content if isinstance(content, bytes) else content.encode("utf-8"))

    def intact(self):
        for name, (_, _, content) in FILES.items():
            p = os.path.join(self.root, name)
            if content is MISSING:
                if os.path.lexists(p):
                    return False
            elif content is DIR:
                if not os.path.isdir(p) or os.listdir(p):
                    return False
            else:
                try:
                    with open(p, "rb") as f:
                        if f.read() != (content if isinstance(content, bytes) else content.encode("utf-8")):
                            return False
                except OSError:
                    return False
        return True

    def restore(self):
        for name in os.listdir(self.root):
            p = os.path.join(self.root, name)
            if name == "out":
                continue
            if os.path.isdir(p) and not os.path.islink(p):
                shutil.rmtree(p, ignore_errors=True)
            else:
                os.unlink(p)
        self.build()

    def render(self, argv):
        return [os.path.join(self.root, t[1:]) if t.startswith("@") and len(t) > 1 else t for t in argv]

    def abstract(self, text):
        return text.replace(self.root + os.sep, "@").replace(self.root, "@")

    def clean_out(self):
        for name in os.listdir(self.out):
            p = os.path.join(self.out, name)
            if os.path.isdir(p) and not os.path.islink(p):
                shutil.rmtree(p, ignore_errors=True)
            else:
                os.unlink(p)

    def outputs(self):
        """{name: text} of the files a command's '-o' created (their names start with 'o')."""
        res = {}
        for name in sorted(os.listdir(self.out)):
            p = os.path.join(self.out, name)
            if name.startswith("o") and os.path.isfile(p):
                with open(p, "rb") as f:
                    res[name] = f.read().decode("utf-8", "replace")
        return res

    def close(self):
        shutil.rmtree(self.root, ignore_errors=True)


STDIN = {
    "empty": "", "cnf": CNF_TEXT, "kthlist": KTH_DAG,
    "cnf-truncated": CNF_TEXT[:-3], "cnf-miscounted": "p cnf 3 5\n1 -2 0\n", "kthlist-truncated": KTH_DAG[:-3],
    "kthlist-cyclic": KTH_CYCLE, "garbage": "%PDF-1.4 \x01\x02 lorem ipsum\n\t\n\x00", "blank-lines": "\n\n\n",
}
STDIN_CLASS = {"empty": "empty", "cnf": "cnf", "kthlist": "kthlist", "cnf-truncated": "truncated", "cnf-miscounted": "truncated",
               "kthlist-truncated": "truncated", "kthlist-cyclic": "garbage", "garbage": "garbage", "blank-lines": "garbage"}


# ---------------------------------------------------------------------------
# observation points
# ---------------------------------------------------------------------------
PHASE_BY_FRAME = (("to_file", "write"), ("transform_cnf", "transform"), ("build_formula", "build"),
                  ("parse_command_line", "parse"), ("parse_args", "parse"), ("from_file", "read"), ("readGraph", "read"))
LIMIT_ERRORS = ("OverflowError", "RecursionError")


def describe_exception(e):
    """(type name, innermost function inside the cnfgen package, phase) from the traceback."""
    names, inner = [], None
    tb = e.__traceback__
    prefix = os.path.join(REPO, "cnfgen") + os.sep
    while tb is not None:
        co = tb.tb_frame.f_code
        names.append(co.co_name)
        if co.co_filename.startswith(prefix):
            inner = co.co_name
        tb = tb.tb_next
    phase = "run"
    for fn, ph in PHASE_BY_FRAME:
        if fn in names:
            phase = ph
            break
    if phase == "run" and e.__context__ is not None and e.__context__ is not e:
        phase = describe_exception(e.__context__)[2]        # error() called from the handler of the original exception
    family = "ValueError" if isinstance(e, ValueError) else "OSError" if isinstance(e, OSError) else type(e).__name__
    return type(e).__name__, inner or (names[-1] if names else "?"), phase, family


class Taps:
    """Observation of one main(): the exception leaving cli(), the parse phase, the parsed namespaces."""

    def __init__(self, tool):
        self.tool = tool
        self.cli_exit = None           # (type, function, phase) of the exception that left cli()
        self.parse_done = False
        self.help_exit = False         # the parser left through SystemExit(0/None)
        self.namespaces = []
        self.depth = 0

    def __enter__(self):
        import cnfgen.clitools.cmdline    # noqa: F401
        self.mod = tool_module(self.tool)
        self.cm = sys.modules["cnfgen.clitools.cmdline"]
        self.orig_cli = self.mod.cli
        taps = self

        def cli(*a, **kw):
            try:
                return taps.orig_cli(*a, **kw)
            except Exception as e:           # noqa: BLE001 - recorded and passed on unchanged
                taps.cli_exit = describe_exception(e)
                raise
        self.mod.cli = cli
        self.orig_pcl = getattr(self.mod, "parse_command_line", None)
        if self.orig_pcl is not None:
            def parse_command_line(*a, **kw):
                return taps._parse(taps.orig_pcl, a, kw)
            self.mod.parse_command_line = parse_command_line
        else:
            import argparse
            base = argparse.ArgumentParser.parse_args

            def parse_args(parser, *a, **kw):
                if taps.depth:
                    return base(parser, *a, **kw)
                return taps._parse(base, (parser,) + a, kw)
            self.cm.CLIParser.parse_args = parse_args
        return self

    def _parse(self, fn, a, kw):
        self.depth += 1
        try:
            res = fn(*a, **kw)
        except SystemExit as e:
            if e.code in (0, None):
                self.help_exit = True
            raise
        finally:
            self.depth -= 1
        self.parse_done = True
        if isinstance(res, tuple):
            self.namespaces = [res[0]] + list(res[1])
        else:
            self.namespaces = [res]
        return res

    def __exit__(self, *exc):
        self.mod.cli = self.orig_cli
        if self.orig_pcl is not None:
            self.mod.parse_command_line = self.orig_pcl
        else:
            try:
                del self.cm.CLIParser.parse_args
            except AttributeError:
                pass

    # -- what the parsed command line selected
    def output_file(self):
        """The file object behind '-o' (None: standard output or nothing parsed)."""
        if not self.namespaces:
            return None
        f = getattr(self.namespaces[0], "output", None)
        if f is None or not hasattr(f, "name") or not isinstance(getattr(f, "name", None), str) or f.name in ("<stdout>", "-"):
            return None
        return f

    def selected_format(self):
        if not self.parse_done or self.tool in ("cnfshuffle", "kthlist2pebbling"):
            return None if not self.parse_done else "dimacs"
        ns = self.namespaces[0]
        explicit = getattr(ns, "output_format", None)
        if explicit in oc.FORMATS:
            return explicit
        f = self.output_file()
        ext = os.path.splitext(f.name)[-1][1:] if f is not None else ""
        return {"tex": "latex", "opb": "opb"}.get(ext, "dimacs")

    def reached(self):
        """(formula sub-command, [transformations]) the parser selected."""
        if not self.namespaces:
            return None, []
        ns = self.namespaces[0]
        g = getattr(getattr(ns, "generator", None), "name", None)
        ts = [getattr(getattr(n, "transformation", None), "name", None) for n in self.namespaces]
        return g, [t for t in ts if t]


class Observation:
    pass


class CommandWatchdog(BaseException):
    """Raised in the main thread when one command has used up its CPU budget (SIGVTALRM: the framework owns SIGALRM)."""


CPU_BUDGET = 6.0          # seconds of CPU time of this process; an accepted command needs < 1 s


def _watchdog(signum, frame):
    raise CommandWatchdog()


def execute(zoo, tool, argv, stdin_kind, seed):
    """One real main() in-process.  argv carries '@name' placeholders for scratch paths."""
    zoo.clean_out()
    # a real process gets fresh string objects: argparse decides "was this option given" by identity with the
    # default, which an interned literal of this module could accidentally share
    real = [(t + "\0")[:-1] if len(t) > 1 else t for t in zoo.render(argv)]
    random.seed(seed)
    state = random.getstate()
    with Taps(tool) as taps:
        signal.signal(signal.SIGVTALRM, _watchdog)
        signal.setitimer(signal.ITIMER_VIRTUAL, CPU_BUDGET)
        try:
            o = run_main(tool, real, STDIN[stdin_kind])
        finally:
            signal.setitimer(signal.ITIMER_VIRTUAL, 0)
        ob = Observation()
        ob.no_answer = None
        if isinstance(o.exc, CommandWatchdog):
            ob.no_answer = "cpu-budget"
        elif isinstance(o.exc, MemoryError):
            ob.no_answer = "memory-limit"
        ob.tool, ob.argv, ob.stdin = tool, list(argv), stdin_kind
        ob.rc, ob.out, ob.err = o.rc, o.out, o.err
        ob.exc = describe_exception(o.exc) if o.exc is not None else None
        ob.exc_repr = repr(o.exc)[:300] if o.exc is not None else None
        ob.cli_exit = taps.cli_exit
        ob.parse_done, ob.help_exit = taps.parse_done, taps.help_exit
        ob.fmt = taps.selected_format()
        ob.reached = taps.reached()
        f = taps.output_file()
        ob.outname = os.path.basename(f.name) if f is not None else None
        # a real process flushes and closes the output file when it ends
        for ns in taps.namespaces:
            g = getattr(ns, "output", None)
            if g is not None and g not in (sys.stdout, sys.__stdout__) and hasattr(g, "fileno") and not getattr(g, "closed", True):
                try:
                    g.close()
                except (OSError, ValueError):
                    pass
        taps.namespaces = []
    o = None
    ob.used_random = random.getstate() != state
    ob.files = zoo.outputs()
    return ob


def reexecute(zoo, tool, argv, stdin_kind):
    """The same command as a real process; returns its coarse outcome class and the raw observation."""
    zoo.clean_out()
    o = spawn(tool, zoo.render(argv), STDIN[stdin_kind], env=SPAWN_ENV, timeout=90)
    return oc.coarse(o.rc, o.out, o.err, False, zoo.outputs()), o


# ---------------------------------------------------------------------------
# the oracle
# ---------------------------------------------------------------------------
def judge(ob):
    """-> (class, mechanism or None, message).  class: SUCCESS | HELP | CLI-ERROR | VIOLATION."""
    tool = ob.tool
    phase = "parse" if not ob.parse_done else "after-parse"
    default_marker = oc.MARKER[oc.DEFAULT_FORMAT[tool]]
    if ob.exc is not None:
        etype, fn, ph, _ = ob.exc
        where = "int-too-large" if etype in LIMIT_ERRORS else fn
        return ("VIOLATION", "%s:%s:unhandled:%s:%s" % (tool, ph, etype, where),
                "terminates through an unhandled %s raised in %s() [%s]" % (etype, fn, ob.exc_repr))
    swallowed = ""
    if ob.cli_exit is not None:
        swallowed = ":".join((ob.cli_exit[2], "%s", ob.cli_exit[3]))
    if ob.rc == 0:
        if ob.help_exit:
            # the parser left through a help / version action: "or print a help text"
            if ob.out.strip() == "":
                return "VIOLATION", "%s:parse:help-prints-nothing" % tool, "a help action exits with status 0 and prints nothing on stdout"
            return "HELP", None, "stderr-text" if ob.err.strip() else ""
        # status 0 without help: a complete formula has to be there
        fmt = ob.fmt or oc.DEFAULT_FORMAT[tool]
        if ob.cli_exit is not None:
            return ("VIOLATION", "%s:%s" % (tool, swallowed % "exit-0-after-swallowed-exception"),
                    "%s left cli() in %s() and the tool exits with status 0 (stdout %d bytes)"
                    % (ob.cli_exit[0], ob.cli_exit[1], len(ob.out)))
        if ob.outname is not None:
            text = ob.files.get(ob.outname, "")
        else:
            text = ob.out
        v = oc.check_formula(fmt, text)
        if not v.ok:
            return ("VIOLATION", "%s:%s:exit-0-without-complete-%s-formula:%s" % (tool, phase, fmt, v.kind),
                    "exit status 0, but the strict %s reader rejects the output: %s" % (fmt, v.detail))
        if ob.err.strip() and oc.unshielded_lines(ob.err, (oc.MARKER[fmt], default_marker)):
            # the statement does not constrain stderr of a successful run: recorded only
            return "SUCCESS", None, "stderr-noise"
        return "SUCCESS", None, ""
    # status != 0 (or main() returned normally after reporting: rc is what sys.exit got)
    frag = oc.formula_fragments(ob.out)
    for name, text in ob.files.items():
        frag = frag or oc.formula_fragments(text)
    kind = ob.cli_exit[3] if ob.cli_exit is not None else "no-exception"
    ph = ob.cli_exit[2] if ob.cli_exit is not None else phase
    if ob.err.strip() == "":
        return ("VIOLATION", "%s:%s:error-without-message-on-stderr:%s" % (tool, ph, kind),
                "fails with status %r and nothing on stderr (stdout: %r)" % (ob.rc, ob.out[:200]))
    if frag:
        return ("VIOLATION", "%s:%s:partial-formula-before-error:%s" % (tool, ph, frag[0][1]),
                "fails with status %r after writing the %s %r" % (ob.rc, frag[0][1], frag[0][2][:80]))
    markers = (default_marker,) if not ob.parse_done else (oc.MARKER[ob.fmt],)
    bad = oc.unshielded_lines(ob.err, markers)
    if bad:
        return ("VIOLATION", "%s:%s:unprefixed-error-message:%s" % (tool, ph, kind),
                "error message line %r does not start with the comment marker %r" % (bad[0][:100], markers[0]))
    return "CLI-ERROR", None, markers[0]


_CONFIRMED = {}          # mechanism -> bool, per worker process
_RESAMPLED = {}          # fine class -> how often re-executed in this worker


def expected_coarse(cls, mech):
    if cls == "SUCCESS":
        return ("SUCCESS",)
    if cls == "HELP":
        return ("HELP",)
    if cls == "CLI-ERROR":
        return ("ERROR",)
    kind = mech.split(":")[2]
    if kind == "unhandled":
        return ("CRASH",)
    if kind.startswith("exit-0") or kind.startswith("help-"):
        return ("EXIT0-NO-FORMULA", "HELP", "SUCCESS")      # status 0 is what has to be confirmed; see confirm()
    if kind == "partial-formula-before-error":
        return ("ERROR+fragment", "ERROR+fragment+silent", "ERROR+fragment+unshielded")
    if kind == "error-without-message-on-stderr":
        return ("ERROR+silent", "ERROR+fragment+silent")
    if kind == "unprefixed-error-message":
        # the wrong marker of another format is still a marker for the tap-free classifier
        return ("ERROR+unshielded", "ERROR")
    return ()


class Batch:
    """Runs commands, judges them, keeps the accounting of one case."""

    def __init__(self, ctx, zoo, tag):
        self.ctx, self.zoo, self.tag = ctx, zoo, tag
        self.seen = {}            # fine class -> a command of that class
        self.problems = []

    def run(self, cmd, index):
        ctx, zoo = self.ctx, self.zoo
        tool, argv, stdin_kind = cmd["tool"], cmd["argv"], cmd.get("stdin", "empty")
        seed = int.from_bytes(hashlib.blake2b(repr((ctx.seed, self.tag, index)).encode(), digest_size=4).digest(), "big")
        ob = execute(zoo, tool, argv, stdin_kind, seed)
        risky = any(t in ("-o", "--output", "save") or t.startswith("--o") for t in argv)
        if risky and not zoo.intact():
            zoo.restore()
            ctx.count("scratch_files_restored")
        if ob.no_answer:
            # non-termination / resource exhaustion is outside the classifier (ASSUMPTIONS): observed, not judged
            ctx.count("no_answer:" + ob.no_answer)
            ctx.count("no_answer:with-30-digit-number" if HUGE in argv else "no_answer:size-cap-too-lax")
            if not zoo.intact():
                zoo.restore()
            return ob, "NO-ANSWER", None
        cls, mech, msg = judge(ob)
        # accounting
        ctx.count("tool:" + tool)
        ctx.count("generator:" + cmd["gen"])
        for op in cmd.get("ops", ()):
            ctx.count("op:" + op)
        for fk in cmd.get("files", ()):
            ctx.count("file:" + fk)
        ctx.count("stdin:" + STDIN_CLASS[stdin_kind])
        ctx.count("class:" + cls)
        ctx.count("phase:" + ("after-parse" if ob.parse_done else "parse"))
        ctx.count("cli_exit:" + (ob.cli_exit[0] if ob.cli_exit else "none"))
        g, ts = ob.reached
        if g:
            ctx.count("reached:" + g)
        for t in ts:
            ctx.count("reached-T:" + t)
        if cls == "SUCCESS":
            ctx.count("success:" + (ob.fmt or oc.DEFAULT_FORMAT[tool]))
            ctx.count("success:to-file" if ob.outname else "success:to-stdout")
            if msg:
                ctx.count("success:with-unshielded-stderr-lines")
        elif cls == "HELP" and msg:
            ctx.count("help:with-text-on-stderr")
        elif cls == "CLI-ERROR":
            ctx.count("error:parse-phase" if not ob.parse_done else "error:after-parse")
            ctx.count("error:marker:" + msg)
            if ob.out.strip():
                ctx.count("error:noise-on-stdout-tolerated")
        fine = (tool, cls, mech or ("parse" if not ob.parse_done else ob.fmt), cmd["gen"])
        label = "%s %s" % (tool, " ".join(repr(a) if (a == "" or " " in a) else a for a in argv))
        if stdin_kind != "empty":
            label += "  < %s" % stdin_kind
        if cls == "VIOLATION":
            ctx.count("violating_executions")
            if mech not in _CONFIRMED:
                want = expected_coarse(cls, mech)
                got, o = reexecute(zoo, tool, argv, stdin_kind)
                ctx.count("subprocess_reexecutions")
                ok = got in want
                if mech.split(":")[2].startswith(("exit-0", "help-")):
                    ok = o.rc == 0 and got in want
                if not ok and ob.used_random:
                    ctx.count("subprocess_disagreement_on_random_command")
                    ok = None
                if ok:
                    ctx.count("subprocess_agreements")
                    ctx.count("violations_confirmed_by_real_process")
                    _CONFIRMED[mech] = True
                elif ok is False:
                    self.problems.append("in-process %s saw %s, the real process ended as %s (rc=%r, stderr %r)"
                                         % (label, mech, got, o.rc, o.err[-300:]))
                    _CONFIRMED[mech] = False
            if _CONFIRMED.get(mech):
                ctx.violation(mech, "%s: %s" % (label, zoo.abstract(msg)), tool=tool, argv=argv, stdin=stdin_kind, status=ob.rc,
                              stdout=zoo.abstract(ob.out[:400]), stderr=zoo.abstract(ob.err[:600]),
                              exception_leaving_cli=ob.cli_exit, selected_format=ob.fmt, parse_completed=ob.parse_done)
        else:
            self.seen.setdefault(fine, (cmd, cls, mech, ob.used_random, label))
        ctx.judged((tool, tuple(argv), stdin_kind), nontrivial=bool(argv),
                   sample={"command": label, "class": cls, "status": ob.rc, "format": ob.fmt,
                           "exception_leaving_cli": ob.cli_exit[0] if ob.cli_exit else None,
                           "stderr_first_line": zoo.abstract(ob.err.split("\n")[0][:100])})
        return ob, cls, mech

    def resample(self, r, howmany):
        """Re-execute a few commands of different outcome classes as real processes."""
        ctx, zoo = self.ctx, self.zoo
        fines = sorted(self.seen, key=lambda f: (_RESAMPLED.get(f[:3], 0), r.random()))
        for fine in fines[:howmany]:
            cmd, cls, mech, used_random, label = self.seen[fine]
            _RESAMPLED[fine[:3]] = _RESAMPLED.get(fine[:3], 0) + 1
            got, o = reexecute(zoo, cmd["tool"], cmd["argv"], cmd.get("stdin", "empty"))
            ctx.count("subprocess_reexecutions")
            ctx.count("subprocess_class:" + got.split("+")[0])
            if got in expected_coarse(cls, mech):
                ctx.count("subprocess_agreements")
            elif used_random:
                ctx.count("subprocess_disagreement_on_random_command")
            else:
                self.problems.append("in-process %s was %s, the real process ended as %s (rc=%r, stdout %r, stderr %r)"
                                     % (label, cls, got, o.rc, o.out[:200], o.err[-300:]))

    def finish(self):
        if self.problems:
            raise RuntimeError("in-process and real-process observations disagree (harness problem):\n  "
                               + "\n  ".join(self.problems[:5]))


# ---------------------------------------------------------------------------
# the grammar, read from the live argparse tables
# ---------------------------------------------------------------------------
VARIANT_GRAPH = {"op": "simple", "tseitin": "simple", "subsetcard": "bipartite", "php": "bipartite",
                 "xorcomp": "bipartite", "majcomp": "bipartite"}
GRAPH_ACTION = {"ObtainSimpleGraph": "simple", "ObtainBipartiteGraph": "bipartite", "ObtainDirectedAcyclicGraph": "dag"}
_TABLES = None


def tables():
    """{'formula': {name: [slot]}, 'transformation': {name: [slot]}}; slot = (kind, flags, detail)
    kind: int | graph | file | variant | flag | value."""
    global _TABLES
    if _TABLES is not None:
        return _TABLES
    import argparse
    mod = tool_module("cnfgen")
    cm = sys.modules["cnfgen.clitools.cmdline"]
    parser, tparser = mod.setup_command_line_parsers("cnfgen", cm.get_formula_helpers(), cm.get_transformation_helpers())

    def subs(p):
        out = {}
        for a in p._actions:
            if isinstance(a, argparse._SubParsersAction):
                for name, sp in a.choices.items():
                    slots = []
                    for b in sp._actions:
                        if isinstance(b, argparse._HelpAction):
                            continue
                        cname = type(b).__name__
                        flags = list(b.option_strings)
                        tname = getattr(b.type, "__name__", None) or type(b.type).__name__
                        if cname in GRAPH_ACTION:
                            slots.append(("graph", flags, GRAPH_ACTION[cname]))
                        elif b.nargs == 0:
                            slots.append(("flag", flags, None))
                        elif isinstance(b.type, argparse.FileType):
                            slots.append(("file", flags, None))
                        elif b.nargs == "*" and b.type is None:
                            slots.append(("variant", flags, VARIANT_GRAPH.get(name, "simple")))
                        elif b.nargs == "*":
                            slots.append(("ints", flags, tname))
                        elif b.type is not None:
                            slots.append(("int", flags, tname))
                        else:
                            slots.append(("value", flags, None))
                    out[name] = slots
        return out
    _TABLES = {"formula": subs(parser), "transformation": subs(tparser)}
    return _TABLES


VALID_INT = {"positive_int": ["1", "2", "3"], "nonnegative_int": ["0", "1", "2", "3"], "positive_even_int": ["2", "4"],
             "int": ["0", "1", "7"], "probability": ["0", ".5", "1"]}
BOUNDARY = ["-1", "0", "1", "2", "3", "12", "1.5", "x", "", HUGE]
SMALL_BOUNDARY = ["-1", "0", "1", "2", "3", "1.5", "x", ""]
# spellings that some number parser or other accepts (ratios, exponents, special floats, other digits, separators)
NUMBERLIKE = ["1/0", "0/0", "1/2", "3/1", "-1/0", "nan", "inf", "-inf", "1e400", "1e-400", "-1e400", "0x10", "1_0", "\u0663", "\u00bd",
              "+2", "1.", ".5", "1e2", "1e0", "1j", "-0", "0.0", "-0.0", "2.0", "1e-1", "1%", "1,5", "0b1", "1e", "e1", "--1", "1/"]


def boundary_token(r, pool):
    return r.choice(NUMBERLIKE) if r.random() < 0.3 else r.choice(pool)
# positional integer slots in which the 30-digit number is answered at once (measured on the unchanged tree;
# elsewhere it means an endless loop, which no classifier can judge)
HUGE_SAFE = {"and": {0, 1}, "bphp": {0}, "cliquecoloring": {0, 2}, "count": {0, 1}, "cpls": {0, 1, 2}, "or": {0, 1},
             "parity": {0}, "pitfall": {0, 1, 2, 3, 4}, "ptn": {0}, "ram": {0, 1, 2}, "rphp": {1, 2}, "randkcnf": {0, 1},
             "randkxor": {0, 1}, "vdw": {0, 1, 2}, "kcolor": {0}, "kcliquebin": {0}, "domset": {0}, "stone": {0}}
HUGE_VARIANTS = {"op": [["4", HUGE], [HUGE, "2"]], "php": [[HUGE], ["2", HUGE], ["3", "2", HUGE], ["3", HUGE, "2"]],
                 "tseitin": [[HUGE], ["4", HUGE]], "subsetcard": [[HUGE], ["4", HUGE]], "xorcomp": [[HUGE], ["2", HUGE]],
                 "majcomp": [["2", HUGE]]}
HUGE_GRAPHS = {"simple": [["gnp", "3", HUGE], ["gnp", HUGE, ".5"], ["gnm", "3", HUGE], ["gnd", "3", HUGE], ["grid", "2", HUGE],
                          ["complete", "3", "addedges", HUGE], ["complete", "3", "plantclique", HUGE],
                          ["complete", "3", "splitedges", HUGE]],
               "bipartite": [["glrp", "2", "2", HUGE], ["glrd", "2", "2", HUGE], ["glrm", "2", "2", HUGE],
                             ["regular", "2", "2", HUGE], ["shift", "2", "2", HUGE], ["complete", "2", HUGE]],
               "dag": []}

VALID_GRAPHS = {
    "simple": argvcorpus.SIMPLE_DET + argvcorpus.SIMPLE_RND + argvcorpus.EVEN_DET + [
        ["complete", "12"], ["empty", "12"], ["gnp", "12", ".5"], ["gnp", "3", "0"], ["gnp", "3", "1"], ["gnm", "3", "0"],
        ["empty", "0"], ["grid", "3", "3"], ["torus", "3", "3"], ["gnd", "6", "3"], ["complete", "3", "plantclique", "3"],
        ["@simple.kthlist"], ["kthlist", "@simple.kthlist"], ["@simple.gml"], ["gml", "@simple.gml"], ["@simple.dot"],
        ["dot", "@simple.dot"], ["@simple.dimacs"], ["dimacs", "@simple.dimacs"], ["kthlist", "@unknown.xyz"],
        ["complete", "3", "save", "@out/g1.gml"], ["gnp", "4", ".5", "save", "kthlist", "@out/g2"],
        ["@simple.gml", "addedges", "1"], ["grid", "2", "2", "save", "dot", "@out/g3.dot"]],
    "bipartite": argvcorpus.BIP_DET + argvcorpus.BIP_RND + [
        ["complete", "3", "3"], ["glrd", "4", "3", "2"], ["regular", "3", "3", "1"], ["glrp", "3", "3", "0"], ["glrp", "3", "3", "1"],
        ["@bip.matrix"], ["matrix", "@bip.matrix"], ["@bip.kthlist"], ["kthlist", "@bip.kthlist"],
        ["complete", "2", "2", "save", "@out/g1.matrix"], ["glrm", "2", "3", "3", "save", "kthlist", "@out/g2"]],
    "dag": argvcorpus.DAG_DET + [
        ["path", "12"], ["pyramid", "3"], ["tree", "3"], ["@dag.kthlist"], ["kthlist", "@dag.kthlist"], ["@dag.gml"],
        ["gml", "@dag.gml"], ["@dag.dot"], ["dot", "@dag.dot"], ["kthlist", "@noext"], ["pyramid", "2", "save", "@out/g1.kthlist"]],
}
HOSTILE_FILES = {
    "simple": ["missing.gml", "missing", "dir", "dir.gml", "empty.gml", "empty.kthlist", "empty.dot", "empty.dimacs", "bin.gml",
               "bin.kthlist", "bin.dot", "bin.dimacs", "trunc.gml", "trunc.kthlist", "trunc.dot", "trunc.dimacs", "gmlin.kthlist",
               "kthin.gml", "matin.dot", "kthin.dimacs", "cnfin.kthlist", "cnfin.gml", "cnfin.dimacs", "unknown.xyz", "noext",
               "dag.kthlist", "bip.matrix", "formula.cnf", "dag.dot"],
    "bipartite": ["missing.gml", "missing", "dir", "dir.kthlist", "empty.matrix", "empty.kthlist", "bin.matrix", "bin.kthlist",
                  "trunc.matrix", "trunc.kthlist", "dotin.matrix", "gmlin.matrix", "cnfin.matrix", "cnfin.kthlist", "unknown.xyz",
                  "simple.gml", "simple.kthlist", "dag.kthlist", "formula.cnf"],
    "dag": ["missing.kthlist", "missing", "dir", "dir.kthlist", "empty.kthlist", "empty.gml", "empty.dot", "bin.kthlist", "bin.gml",
            "trunc.kthlist", "trunc.gml", "trunc.dot", "gmlin.kthlist", "kthin.gml", "cnfin.kthlist", "cyclic.kthlist", "unknown.xyz",
            "noext", "simple.gml", "simple.kthlist", "bip.matrix", "formula.cnf"],
}
WRONG_TYPE = {"simple": ("dag", "bipartite", "cnf"), "bipartite": ("simple", "dag", "cnf"), "dag": ("simple", "bipartite", "cnf", "cyclic")}
MODIFIERS = {"simple": [["plantclique", "2"], ["addedges", "1"], ["splitedges", "1"], ["save", "@out/g4.gml"]],
             "bipartite": [["plantbiclique", "1", "1"], ["addedges", "1"], ["save", "@out/g4.matrix"]],
             "dag": [["save", "@out/g4.kthlist"]]}
CHARGES = ["first", "random", "randomodd", "randomeven", "zero", "one"]


def file_kind(name, slot_type):
    kind, gtype, _ = FILES[name]
    if kind == "valid" and gtype != slot_type:
        return "wrong-type"
    return kind


def is_number(t):
    try:
        float(t)
        return True
    except ValueError:
        return False


def gen_graph(r, gtype, ops, files, allow_huge=True):
    """Tokens of a graph argument: valid or mutilated."""
    x = r.random()
    if x < 0.45:
        spec = list(r.choice(VALID_GRAPHS[gtype]))
        if r.random() < 0.25 and "save" not in spec:
            spec += r.choice(MODIFIERS[gtype])
        ops.append("graph-valid")
        for t in spec:
            if t.startswith("@") and not t.startswith("@out/"):
                files.append(file_kind(t[1:], gtype))
        return [str(t) for t in spec]
    ops.append("graph-mutilated")
    if x < 0.62:                       # a hostile file, by extension or with a format keyword
        name = r.choice(HOSTILE_FILES[gtype])
        files.append(file_kind(name, gtype))
        if r.random() < 0.5:
            return ["@" + name]
        fmt = r.choice(GRAPH_FORMATS[gtype] + ["matrix", "dimacs", "cnf"])
        if fmt == "dot" and name in FORMULA_LIKE:
            fmt = "gml"
        return [fmt, "@" + name]
    if x < 0.67 and allow_huge and HUGE_GRAPHS[gtype]:
        ops.append("huge-number")
        return list(r.choice(HUGE_GRAPHS[gtype]))
    spec = [str(t) for t in r.choice([g for g in VALID_GRAPHS[gtype] if not g[0].startswith("@") and g[0] not in GRAPH_FORMATS[gtype]])]
    m = r.randrange(11)
    nums = [i for i, t in enumerate(spec) if is_number(t)]
    if m == 0:
        spec = spec[:-1]
    elif m == 1:
        spec.append(r.choice(["2", "0", "x", "-1"]))
    elif m in (2, 3) and nums:
        spec[r.choice(nums)] = boundary_token(r, SMALL_BOUNDARY)
        ops.append("boundary-number")
    elif m == 4:
        other = r.choice([t for t in VALID_GRAPHS if t != gtype])
        spec = [str(t) for t in r.choice([g for g in VALID_GRAPHS[other] if not g[0].startswith("@")])]
    elif m == 5:
        spec[0] = r.choice(["foo", "Complete", "gn", "", "-", "3"])
    elif m == 6:
        spec += r.choice([["save"], ["save", "gml"], ["save", "@nodir/g.gml"], ["save", "@dir"], ["save", "xyz", "@out/g5"],
                          ["save", "@out/g5.xyz"]])
    elif m == 7:
        mod = r.choice(MODIFIERS[gtype])
        spec += mod + mod
    elif m == 8:
        spec += [str(t) for t in r.choice([g for g in VALID_GRAPHS[gtype] if not g[0].startswith("@")])]
    elif m == 9:
        mod = list(r.choice(MODIFIERS[gtype][:-1] or [["addedges", "1"]]))
        mod[-1] = boundary_token(r, SMALL_BOUNDARY + ["12"])
        spec += mod
        ops.append("boundary-number")
    else:
        spec.insert(r.randrange(1, len(spec) + 1), r.choice(["-x", "--foo", "plantclique", "addedges"]))
    return spec


def gen_int(r, tname, ops, mode, small=False):
    valid = VALID_INT.get(tname, ["1", "2", "3"])
    if mode == "valid" or r.random() < 0.45:
        return r.choice(valid)
    ops.append("boundary-number")
    return boundary_token(r, SMALL_BOUNDARY if small else SMALL_BOUNDARY + ["12", "12"])


CANONICAL_GRAPH = {"simple": ["complete", "3"], "bipartite": ["complete", "2", "2"], "dag": ["path", "2"]}


def huge_instance(r, table, sub, key, ops):
    """The 30-digit number in one positional integer slot, everything else as in the measurement that showed the
    tool answers at once: other numbers 2, canonical small graphs, no options."""
    at = r.choice(sorted(HUGE_SAFE[key]))
    out, nth = [], 0
    for kind, flags, detail in table[sub]:
        if flags:
            continue
        if kind == "int":
            out.append(HUGE if nth == at else "2")
        elif kind == "graph":
            out += CANONICAL_GRAPH[detail]
        nth += 1
    ops += ["boundary-number", "huge-number"]
    return out


def gen_variant(r, sub, gtype, ops, files, mode, small=False):
    """The sub-commands that take numbers or a graph (op, php, tseitin, subsetcard, xorcomp, majcomp)."""
    x = r.random()
    if x < 0.5:
        n = r.choice([1, 1, 2, 2, 3] if sub == "php" else [1, 2, 2])
        if mode == "valid":
            vals = {"op": [["3"], ["4", "2"], ["4", "3"]], "php": [["2"], ["3", "2"], ["3", "3", "2"]],
                    "tseitin": [["5"], ["6"], ["4", "2"], ["6", "3"]], "subsetcard": [["4"], ["3", "2"]],
                    "xorcomp": [["3"], ["3", "2"]], "majcomp": [["3"], ["4", "3"]]}.get(sub, [["3"]])
            return list(r.choice(vals))
        if r.random() < 0.08 and not small and sub in HUGE_VARIANTS:
            ops.append("huge-number")
            return list(r.choice(HUGE_VARIANTS[sub]))
        pool = SMALL_BOUNDARY + ["4", "5", "6"] + ([] if small else ["12"])
        ops.append("boundary-number")
        return [boundary_token(r, pool) for _ in range(n + (r.random() < 0.1))]
    g = gen_graph(r, gtype, ops, files, allow_huge=not small)
    if sub == "tseitin":
        c = r.choice(CHARGES) if r.random() < 0.85 else r.choice(["foo", "", "1", "First"])
        return [c] + g if r.random() < 0.95 else g
    return g


def gen_sub_tokens(r, table, sub, ops, files, mode, small=False, trans=False):
    """Tokens after the sub-command name: flags scattered among the positionals."""
    pos, opt = [], []
    key = sub + "-T" if trans and sub == "or" else sub
    if mode == "boundary" and not small and key in HUGE_SAFE and r.random() < 0.08:
        return huge_instance(r, table, sub, key, ops)
    for idx, (kind, flags, detail) in enumerate(table[sub]):
        if flags:
            use = r.random() < (0.9 if sub == "subgraph" else 0.35)
            if not use:
                continue
            f = r.choice(flags)
            if kind == "flag":
                opt.append([f])
            elif kind == "graph":
                opt.append([f] + gen_graph(r, detail, ops, files, allow_huge=not small))
            elif kind == "int":
                opt.append([f, gen_int(r, detail, ops, mode, small=True)])
            else:
                opt.append([f, r.choice(["x", "1"])])
            continue
        if kind == "int":
            pos.append([gen_int(r, detail, ops, mode, small)])
        elif kind == "ints":
            pos.append([gen_int(r, detail, ops, mode, small=True) for _ in range(r.choice([0, 0, 1, 2]))])
        elif kind == "graph":
            pos.append(gen_graph(r, detail, ops, files, allow_huge=not small))
        elif kind == "variant":
            pos.append(gen_variant(r, sub, detail, ops, files, mode, small))
        elif kind == "file":
            if r.random() < 0.3:
                pos.append([])                                   # standard input
            else:
                name = r.choice(["formula.cnf", "formula.cnf", "missing.cnf", "dir", "dir.cnf", "empty.cnf", "bin.cnf", "trunc.cnf",
                                 "miscount.cnf", "range.cnf", "kthin.cnf", "simple.gml"])
                files.append(file_kind(name, "cnf"))
                pos.append(["@" + name])
        else:
            pos.append([r.choice(["x", "1"])])
    if "huge-number" in ops:
        opt = []
    if mode == "structure" and pos:
        y = r.random()
        if y < 0.4:
            del pos[r.randrange(len(pos))]
            ops.append("missing-argument")
        elif y < 0.8:
            pos.insert(r.randrange(len(pos) + 1), [r.choice(["2", "x", "0", "complete", "--", ""])])
            ops.append("surplus-argument")
        else:
            opt.append([r.choice(["--foo", "-x", "--functional", "-Z", "--sparse", "--h"])])
            ops.append("unknown-option")
    out = []
    for p in pos:
        while opt and r.random() < 0.3:
            out += opt.pop()
        out += p
    while opt:
        out += opt.pop()
    return out


WRITE_OK = ("@out/o", "@nodir/")          # formula outputs are @out/o*, saved graphs @out/g* (Zoo.outputs relies on it)
SAVE_OK = ("@out/g", "@nodir/")


def is_output_option(t):
    return t in ("-o", "--output") or (len(t) >= 3 and "--output".startswith(t))


def sanitize(tool, argv):
    """Nothing may be written outside the scratch directory: the word behind an output option or `save` is a
    scratch path (or '-' / '' / a directory of the zoo); attached forms (-oNAME, --output=NAME) are dropped."""
    def ok(t, prefixes=WRITE_OK):
        # '-' is standard output for '-o', but a file of that name for `save`
        return t.startswith(prefixes) or t in ("@dir", "@out") or (prefixes is WRITE_OK and t in ("-", ""))
    out, i = [], 0
    exact = ("-o", "-of") if tool in ("cnfgen", "pbgen") else ("-o",)
    argv = [t for t in argv if not ((t.startswith("-o") and t not in exact) or
                                    (t.startswith("--o") and "=" in t and t.split("=", 1)[1] not in ("", "-")))]
    while i < len(argv):
        t = argv[i]
        out.append(t)
        if is_output_option(t) and i + 1 < len(argv) and not ok(argv[i + 1]):
            out.append("@out/o9.cnf")
        elif t == "save" and i + 1 < len(argv):
            nxt = argv[i + 1]
            if nxt in ("kthlist", "gml", "dot", "dimacs", "matrix"):
                out.append(nxt)
                i += 1
                if i + 1 < len(argv) and not ok(argv[i + 1], SAVE_OK):
                    out.append("@out/g9")
            elif not ok(nxt, SAVE_OK):
                out.append("@out/g9.gml")
        i += 1
    return out


CONSTRUCTIONS = ("grid", "torus", "complete", "empty", "gnp", "gnm", "gnd", "glrp", "glrm", "glrd", "regular", "shift")


def size_guard(argv):
    """Syntactic size cap (no alarm needed): the product of the integers behind a graph construction (its number of
    vertices, at least) stays <= 27 (<= 12 for tseitin, whose clauses are exponential in the degree; <= 9 when a
    transformation follows), DAG heights <= 4, and all numbers <= 3 when a transformation follows.  Returns the
    (possibly trimmed) argument vector."""
    argv = list(argv)
    chain = "-T" in argv
    cap = 9 if chain else 12 if "tseitin" in argv else 27
    i = 0
    while i < len(argv):
        w = argv[i]
        if w in CONSTRUCTIONS:
            vol, j = 1, i + 1
            while j < len(argv) and is_number(argv[j]):
                v = int(argv[j]) if argv[j].isdigit() and len(argv[j]) < 20 else 1
                if v > 1:
                    if vol * v > cap:
                        del argv[j]
                        continue
                    vol *= v
                j += 1
            i = j
            continue
        if w in ("tree", "pyramid") and i + 1 < len(argv) and argv[i + 1].isdigit() and 4 < int(argv[i + 1]) < 10 ** 20:
            argv[i + 1] = "4"
        if chain and w.isdigit() and 3 < int(w) < 10 ** 20 and not (i > 0 and argv[i - 1] in ("--seed", "-S")):
            argv[i] = "3"
        i += 1
    return argv


TINY_BASES = [["php", "3", "2"], ["op", "3"], ["and", "2", "1"], ["or", "2", "1"], ["false"], ["true"], ["parity", "3"],
              ["peb", "pyramid", "1"], ["tseitin", "first", "grid", "2", "2"], ["kclique", "2", "complete", "3"], ["count", "3", "3"],
              ["php", "complete", "2", "2"], ["stone", "2", "path", "2"], ["dimacs", "@formula.cnf"], ["kcolor", "2", "@simple.gml"]]
ZERO_ARG_T = ["none", "flip", "shuffle"]          # ite has no argument either, but multiplies clauses


HUGE_CHUNKS = [["xor", HUGE], ["lift", HUGE], ["exact", "2", HUGE], ["exact", HUGE, "2"], ["or", HUGE], ["maj", HUGE], ["eq", HUGE],
               ["one", HUGE], ["xorcomp", HUGE], ["xorcomp", "2", HUGE]]
BROKEN_CHUNKS = [[], ["foo"], ["xor"], ["xor", "2", "3"], ["-T"], ["Xor", "2"], ["shuffle", "--foo"], ["2"], ["xor", "--", "2"], [""],
                 ["exact", "2"], ["none", "none"], ["flip", "2"], ["xor", "-h", "2"]]


def gen_transformation(r, T, ops, files, multiplying_allowed):
    """(tokens of one transformation with its arguments, multiplies?, valid?) -- numbers <= 3 (size cap)."""
    ttable = T["transformation"]
    name = r.choice(sorted(ttable))
    if name not in ZERO_ARG_T and not multiplying_allowed:
        name = r.choice(ZERO_ARG_T)
    if name in ZERO_ARG_T:
        mode = "valid" if r.random() < 0.85 else "structure"
        return [name] + gen_sub_tokens(r, ttable, name, ops, files, mode, small=True, trans=True), False, mode == "valid"
    if r.random() < 0.05:
        ops.append("huge-number")
        return list(r.choice(HUGE_CHUNKS)), True, False
    mode = r.choice(["valid", "valid", "valid", "boundary", "structure"])
    return [name] + gen_sub_tokens(r, ttable, name, ops, files, mode, small=True, trans=True), True, mode == "valid"


def gen_chain(r, T, ops, files):
    """-T chunks: at most one multiplying transformation."""
    chunks, valid, multiplying = [], True, False
    for _ in range(r.choice([1, 1, 1, 2])):
        if r.random() < 0.12:
            chunks.append(["-T"] + r.choice(BROKEN_CHUNKS))
            valid = False
            continue
        toks, mult, ok = gen_transformation(r, T, ops, files, not multiplying)
        multiplying = multiplying or mult
        valid = valid and ok
        chunks.append(["-T"] + toks)
    ops.append("chain-valid" if valid else "chain-broken")
    return [t for c in chunks for t in c]


OUT_EXT = {"dimacs": ["o1.cnf", "o1", "o1.txt"], "opb": ["o2.opb"], "latex": ["o3.tex"]}


def gen_globals(r, tool, ops):
    """Global options of cnfgen / pbgen in front of the sub-command."""
    g = []
    x = r.random()
    if x < 0.25:
        fmt = r.choice(["latex", "opb", "dimacs"])
        g += [r.choice(["-of", "--output-format"]), fmt]
    elif x < 0.32:
        g += [r.choice(["-l", "--latex"])]
    x = r.random()
    if x < 0.2:
        g += [r.choice(["-o", "--output"]), "@out/" + r.choice(OUT_EXT["dimacs"] + OUT_EXT["opb"] + OUT_EXT["latex"])]
        ops.append("output-file")
    elif x < 0.24:
        g += ["-o", "-"]
    elif x < 0.28:
        g += ["-o", "@nodir/o1.cnf"]
        ops.append("output-missing-directory")
    elif x < 0.32:
        g += ["-o", r.choice(["@dir", "@out"])]
        ops.append("output-directory")
    if r.random() < 0.3:
        g += [r.choice(["-q", "-v", "--quiet", "--verbose", "--varnames"])]
    if r.random() < 0.25:
        g += [r.choice(["--seed", "-S"]), r.choice(["1", "7", "42"])]
    if r.random() < 0.15:
        g += r.choice([["-q", "-v"], ["-l", "-of", "opb"], ["-of"], ["-of", "pdf"], ["-of", ""], ["--seed", "x"], ["--seed", "1.5"],
                       ["--seed", ""], ["--seed", "-1"], ["--seed", "0"], ["--seed", HUGE], ["-S"], ["-o"], ["--foo"], ["-x"], ["--out", "-"],
                       ["--quie"], ["--var"], ["--he"], ["--see", "3"], ["-q", "-q"], ["-of", "dimacs", "-of", "opb"], ["--"], ["-"],
                       ["-o", ""], ["--output="], ["--seed=3"], ["-S3"], ["--verbose=1"]])
        ops.append("hostile-global-option")
    return g


def gen_grammar(r, T):
    tool = "pbgen" if r.random() < 0.3 else "cnfgen"
    ftable = T["formula"]
    ops, files = [], []
    mode = r.choice(["valid", "valid", "boundary", "boundary", "boundary", "structure"])
    chain = []
    latex = False
    g = gen_globals(r, tool, ops)
    latex = any(t in ("latex", "-l", "--latex") or t.endswith(".tex") for t in g)
    if r.random() < (0.3 if tool == "cnfgen" else 0.05):
        base = list(r.choice(TINY_BASES))
        if r.random() < 0.3:
            nums = [i for i, t in enumerate(base) if is_number(t)]
            if nums:
                base[r.choice(nums)] = r.choice(SMALL_BOUNDARY)
                ops.append("boundary-number")
        chain = gen_chain(r, T, ops, files)
        sub = base[0]
        body = base[1:]
        for t in body:
            if t.startswith("@"):
                files.append("valid")
    else:
        sub = r.choice(sorted(ftable))
        body = gen_sub_tokens(r, ftable, sub, ops, files, mode, small=latex)
    x = r.random()
    if x < 0.03:
        subtok = [r.choice(["foo", "PHP", "", "ph", "-", "12", "@formula.cnf"])]
    elif x < 0.05:
        subtok = []
        ops.append("missing-argument")
    else:
        subtok = [sub]
    argv = g + subtok + body + chain
    if r.random() < 0.08:            # global options behind the sub-command are not global options
        argv += r.choice([["-q"], ["-o", "@out/o1.cnf"], ["--seed", "3"], ["-of", "opb"]])
        ops.append("hostile-global-option")
    stdin = "cnf" if sub == "dimacs" and r.random() < 0.7 else r.choice(["empty", "garbage", "cnf-truncated", "cnf-miscounted"]) \
        if sub == "dimacs" else "empty"
    return {"tool": tool, "argv": argv, "stdin": stdin, "ops": ops, "files": files, "gen": "grammar"}


# ---------------------------------------------------------------------------
# k-edit mutants of valid command lines
# ---------------------------------------------------------------------------
CHAIN_PAIRS = [[["xor", "2"], ["flip"]], [["shuffle"], ["or", "2"]], [["none"], ["maj", "3"]], [["flip"], ["shuffle"]],
               [["lift", "2"], ["shuffle", "--no-polarity-flips"]], [["ite"], ["none"]], [["xorcomp", "3", "2"], ["flip"]]]
_CORPUS = None


def corpus():
    global _CORPUS
    if _CORPUS is None:
        out = [("cnfgen", a) for _, a in argvcorpus.small()]
        out += [("pbgen", a) for _, a in argvcorpus.small()[::3]]
        for b in TINY_BASES:
            for t in argvcorpus.TRANSFORMATIONS + [["xorcomp", "3", "2"], ["majcomp", "3"], ["xorcomp", "glrd", "6", "3", "2"]]:
                out.append(("cnfgen", b + ["-T"] + t))
            for p in CHAIN_PAIRS:
                out.append(("cnfgen", b + ["-T"] + p[0] + ["-T"] + p[1]))
        for g in (["-q"], ["-v", "--varnames"], ["-of", "opb"], ["-of", "latex"], ["-l"], ["--seed", "5"], ["-o", "@out/o1.cnf"],
                  ["-o", "@out/o2.opb"], ["-o", "@out/o3.tex"], ["-o", "-", "-of", "dimacs"]):
            for b in TINY_BASES:
                out.append(("cnfgen", g + b))
                if g[0] not in ("-of",) or g[1] != "dimacs":
                    out.append(("pbgen", g + b))
        for a in ([], ["-q"], ["-p", "-v", "-c"], ["--seed", "7"], ["-i", "@formula.cnf"], ["-o", "@out/o1.cnf"],
                  ["-i", "@formula.cnf", "-o", "@out/o1.cnf", "-q"], ["--no-polarity-flips", "--no-clauses-permutation"],
                  ["--input", "-", "--output", "-"]):
            out.append(("cnfshuffle", a))
        for a in ([], ["-q"], ["xor", "2"], ["-i", "@dag.kthlist", "lift", "2"], ["-o", "@out/o1.cnf", "shuffle"],
                  ["-i", "@dag.kthlist", "-o", "@out/o1.cnf", "-q", "or", "2"], ["none"], ["exact", "3", "2"], ["flip"],
                  ["xorcomp", "4", "2"], ["shuffle", "-p", "-c"], ["--input", "-", "maj", "3"]):
            out.append(("kthlist2pebbling", a))
        _CORPUS = out
    return _CORPUS


WORDS = ["-h", "--help", "--foo", "-q", "-x", "complete", "gnp", "pyramid", "glrd", "save", "-e", "--", "-", "first", "kthlist", "gml",
         "@dag.kthlist", "@dir", "@missing.gml", "@formula.cnf", "@simple.gml", "@bip.matrix", "@empty.kthlist", "@bin.gml", "-o",
         "--total", "--plant", "-G", "-H", "addedges", "plantclique", "php", "op", "-V", "--functional"]
FILE_OF_WORD = {"@dag.kthlist": "valid", "@dir": "directory", "@missing.gml": "missing", "@formula.cnf": "valid", "@simple.gml": "valid",
                "@bip.matrix": "valid", "@empty.kthlist": "empty", "@bin.gml": "binary"}


def gen_mutant(r):
    tool, base = r.choice(corpus())
    argv = [str(t) for t in base]
    has_chain = "-T" in argv or tool == "kthlist2pebbling"
    pool = (SMALL_BOUNDARY if has_chain else SMALL_BOUNDARY + ["12", "4", "5"]) + WORDS
    ops, files = [], []
    for _ in range(r.choice([1, 1, 1, 2, 2, 3])):
        op = r.choice(["delete", "duplicate", "swap", "replace", "insert"])
        if not argv and op != "insert":
            op = "insert"
        if op == "delete":
            del argv[r.randrange(len(argv))]
        elif op == "duplicate":
            i = r.randrange(len(argv))
            argv.insert(i, argv[i])
        elif op == "swap":
            if len(argv) < 2:
                continue
            i, j = r.sample(range(len(argv)), 2)
            argv[i], argv[j] = argv[j], argv[i]
        else:
            w = r.choice(pool)
            i = r.randrange(len(argv) + (op == "insert"))
            prev = argv[i - 1] if i > 0 else ""
            if w.startswith("@") and (prev in ("-o", "--output", "save") or prev.startswith("--o")):
                w = "@out/o1.cnf"                      # never overwrite an input file of the zoo
            if w in FILE_OF_WORD:
                files.append(FILE_OF_WORD[w])
            if op == "replace":
                argv[i] = w
            else:
                argv.insert(i, w)
        ops.append(op)
    # an input file moved behind an output option by delete / swap / duplicate
    for i in range(1, len(argv)):
        if argv[i].startswith("@") and not argv[i].startswith("@out/") and (argv[i - 1] in ("-o", "--output", "save") or argv[i - 1].startswith("--o")):
            argv[i] = "@out/o1.cnf"
    # the dot reader echoes its input: keep formula-like files away from it
    for i in range(1, len(argv)):
        if argv[i - 1] == "dot" and argv[i].startswith("@") and argv[i][1:] in FORMULA_LIKE:
            argv[i] = "@simple.gml"
    if tool == "cnfshuffle":
        stdin = r.choice(["cnf", "cnf", "cnf", "empty", "cnf-truncated"])
    elif tool == "kthlist2pebbling":
        stdin = r.choice(["kthlist", "kthlist", "kthlist", "empty", "kthlist-truncated"])
    else:
        stdin = "cnf" if "dimacs" in argv else "empty"
    return {"tool": tool, "argv": argv, "stdin": stdin, "ops": ops, "files": files, "gen": "mutant"}


# ---------------------------------------------------------------------------
# the two filters
# ---------------------------------------------------------------------------
CNF_FILES = ["formula.cnf", "formula.cnf", "missing.cnf", "dir", "dir.cnf", "empty.cnf", "bin.cnf", "trunc.cnf", "miscount.cnf", "range.cnf",
             "kthin.cnf", "simple.gml"]
KTH_FILES = ["dag.kthlist", "dag.kthlist", "noext", "missing.kthlist", "dir", "dir.kthlist", "empty.kthlist", "bin.kthlist", "trunc.kthlist",
             "gmlin.kthlist", "cnfin.kthlist", "cyclic.kthlist", "simple.kthlist", "bip.kthlist", "dag.gml", "formula.cnf"]


def gen_filter(r, T):
    tool = r.choice(["cnfshuffle", "kthlist2pebbling"])
    ops, files = [], []
    argv = []
    stdin_pool = (["cnf", "cnf", "cnf", "empty", "cnf-truncated", "cnf-miscounted", "garbage", "blank-lines", "kthlist"] if tool == "cnfshuffle"
                  else ["kthlist", "kthlist", "kthlist", "empty", "kthlist-truncated", "kthlist-cyclic", "garbage", "blank-lines", "cnf"])
    stdin = r.choice(stdin_pool)
    if r.random() < 0.4:
        name = r.choice(CNF_FILES if tool == "cnfshuffle" else KTH_FILES)
        files.append(file_kind(name, "cnf" if tool == "cnfshuffle" else "dag"))
        argv += [r.choice(["-i", "--input"]), "@" + name]
    elif r.random() < 0.1:
        argv += ["-i", "-"]
    x = r.random()
    if x < 0.2:
        argv += [r.choice(["-o", "--output"]), "@out/" + r.choice(["o1.cnf", "o1", "o2.opb"])]
        ops.append("output-file")
    elif x < 0.25:
        argv += ["-o", "@nodir/o1.cnf"]
        ops.append("output-missing-directory")
    elif x < 0.3:
        argv += ["-o", "@dir"]
        ops.append("output-directory")
    if r.random() < 0.3:
        argv += [r.choice(["-q", "--quiet"])]
    if tool == "cnfshuffle":
        for f in (["-p"], ["-v"], ["-c"], ["--no-polarity-flips"], ["--no-variables-permutation"], ["--no-clauses-permutation"],
                  ["--seed", r.choice(["1", "x", "", "1.5", HUGE])], ["-S", "3"]):
            if r.random() < 0.2:
                argv += f
    if r.random() < 0.2:
        argv += r.choice([["--foo"], ["-x"], ["-i"], ["-o"], ["extra"], ["--inp", "-"], ["--", "x"], ["-q", "-q"], ["-i", ""], ["--seed"],
                          ["-T", "xor", "2"], ["-V"], ["--version"], ["-l"], [""]])
        ops.append("unknown-option")
    r.shuffle(argv) if r.random() < 0.1 else None
    if tool == "kthlist2pebbling" and r.random() < 0.6:
        if r.random() < 0.1:
            argv += r.choice([["foo"], ["xor"], ["xor", "2", "3"], ["Xor", "2"], ["xor", "2", "-T", "flip"], ["xor", "2", "flip"]])
            ops.append("chain-broken")
        else:
            toks, _, ok = gen_transformation(r, T, ops, files, True)
            argv += toks
            ops.append("chain-valid" if ok else "chain-broken")
    return {"tool": tool, "argv": argv, "stdin": stdin, "ops": ops, "files": files, "gen": "filter"}


# ---------------------------------------------------------------------------
# enumerated sub-spaces: help switches, file arguments
# ---------------------------------------------------------------------------
def help_commands():
    T = tables()
    out = []
    add = lambda tool, argv, stdin="empty": out.append({"tool": tool, "argv": argv, "stdin": stdin, "ops": ["help-switch"],   # noqa: E731
                                                        "files": [], "gen": "help"})
    for tool in ("cnfgen", "pbgen"):
        for sw in ("-h", "--help", "--help-graph", "--help-bipartite", "--help-dag", "--tutorial", "-V", "--version", "--tut", "--vers",
                   "--help-g", "--help-"):
            add(tool, [sw])
            add(tool, [sw, "php", "3", "2"])
            add(tool, ["php", "3", "2", sw])
            add(tool, ["-q", sw])
            add(tool, ["-o", "@out/o1.cnf", sw])
            add(tool, ["--foo", sw])
            add(tool, [sw, "--foo"])
            add(tool, [sw, sw])
            add(tool, ["-of", "latex", sw, "nosuchformula"])
        for sub in sorted(T["formula"]):
            add(tool, [sub, "-h"])
            add(tool, [sub, "--help"])
            add(tool, ["-l", sub, "x", "-h"])
            add(tool, [sub, "--", "-h"])              # behind the separator the switch is an argument of the sub-command
        add(tool, ["php", "-h", "-T", "xor", "2"])
    for t in sorted(T["transformation"]):
        add("cnfgen", ["php", "3", "2", "-T", t, "-h"])
        add("cnfgen", ["php", "3", "2", "-T", t, "--help"])
        add("cnfgen", ["nosuchformula", "-T", t, "-h"])
        add("cnfgen", ["php", "3", "2", "-T", t, "--", "--help"])
        add("kthlist2pebbling", [t, "-h"], "kthlist")
        add("kthlist2pebbling", ["-q", t, "--help"])
    add("cnfgen", ["php", "3", "2", "-T", "-h"])
    add("cnfgen", ["php", "3", "2", "-T", "xor", "2", "-T", "--help"])
    add("pbgen", ["php", "3", "2", "-T", "xor", "-h"])
    for tool, stdin in (("cnfshuffle", "cnf"), ("kthlist2pebbling", "kthlist")):
        for sw in ("-h", "--help", "--he", "-V", "--version", "--tutorial", "--help-graph"):
            add(tool, [sw], stdin)
            add(tool, ["-q", sw], stdin)
            add(tool, [sw, "--foo"])
            add(tool, ["--foo", sw])
            add(tool, ["-o", "@out/o1.cnf", sw])
            add(tool, ["-i", "@missing", sw])
    return out


def file_commands():
    out = []

    def add(tool, argv, name, slot, stdin="empty"):
        out.append({"tool": tool, "argv": argv, "stdin": stdin, "ops": ["graph-valid" if file_kind(name, slot) == "valid" else
                                                                         "graph-mutilated"] if slot != "cnf" else [],
                    "files": [file_kind(name, slot)], "gen": "files"})
    for name in sorted(FILES):
        for tool in ("cnfgen", "pbgen"):
            for gtype, pre in (("simple", ["kcolor", "2"]), ("bipartite", ["php"]), ("dag", ["peb"])):
                add(tool, pre + ["@" + name], name, gtype)
                for fmt in GRAPH_FORMATS[gtype]:
                    if fmt == "dot" and name in FORMULA_LIKE:
                        continue
                    add(tool, pre + [fmt, "@" + name], name, gtype)
            add(tool, ["dimacs", "@" + name], name, "cnf")
            if FILES[name][0] == "valid" or name.startswith(("trunc.", "empty.")):
                # a graph read from a file and then modified
                add(tool, ["kcolor", "2", "@" + name, "addedges", "1"], name, "simple")
                add(tool, ["matching", "@" + name, "plantclique", "2", "splitedges", "1"], name, "simple")
                add(tool, ["php", "@" + name, "plantbiclique", "1", "1", "addedges", "1"], name, "bipartite")
                add(tool, ["php", "2", "1", "-T", "majcomp", "@" + name, "addedges", "1"], name, "bipartite")
        add("cnfgen", ["-of", "latex", "tseitin", "first", "@" + name], name, "simple")
        add("cnfgen", ["-o", "@out/o2.opb", "stone", "2", "@" + name], name, "dag")
        add("cnfgen", ["iso", "complete", "3", "-e", "@" + name], name, "simple")
        add("cnfgen", ["php", "2", "1", "-T", "xorcomp", "@" + name], name, "bipartite")
        add("cnfgen", ["subgraph", "-G", "@" + name, "-H", "complete", "2"], name, "simple")
        add("cnfshuffle", ["-i", "@" + name], name, "cnf")
        add("cnfshuffle", ["-q", "-o", "@out/o1.cnf", "--input", "@" + name], name, "cnf")
        add("kthlist2pebbling", ["-i", "@" + name], name, "dag")
        add("kthlist2pebbling", ["--input", "@" + name, "xor", "2"], name, "dag")
    return out


# ---------------------------------------------------------------------------
# cases
# ---------------------------------------------------------------------------
def limit_memory():
    """Safety net under the syntactic size cap: a command that escapes it must not take the machine down."""
    import resource
    soft, hard = resource.getrlimit(resource.RLIMIT_AS)
    want = 6 << 30
    if soft == resource.RLIM_INFINITY or soft > want:
        resource.setrlimit(resource.RLIMIT_AS, (want, hard))


def run_batch(ctx, tag, commands, nsub):
    oc.selfcheck()
    limit_memory()
    zoo = Zoo()
    try:
        b = Batch(ctx, zoo, tag)
        for i, cmd in enumerate(commands):
            safe = size_guard(cmd["argv"])
            if safe != cmd["argv"]:
                ctx.count("size_guard_trimmed")
            cmd["argv"] = sanitize(cmd["tool"], safe)
            if not writes_only_into_scratch(cmd["tool"], cmd["argv"]):
                raise RuntimeError("refusing to run %r: it could write outside the scratch directory" % (cmd,))
            b.run(cmd, i)
        b.resample(ctx.rng("c18-resample", tag), nsub)
        b.finish()
    finally:
        zoo.close()


def writes_only_into_scratch(tool, argv):
    """The guarantee sanitize() gives, checked on the final argument vector."""
    exact = ("-o", "-of") if tool in ("cnfgen", "pbgen") else ("-o",)
    for i, t in enumerate(argv):
        if t.startswith("-o") and t not in exact:
            return False
        if t.startswith("--o") and "=" in t and t.split("=", 1)[1] not in ("", "-"):
            return False
        nxt = argv[i + 1] if i + 1 < len(argv) else None
        if t == "save" and nxt in ("kthlist", "gml", "dot", "dimacs", "matrix"):
            nxt = argv[i + 2] if i + 2 < len(argv) else None
        if (is_output_option(t) or t == "save") and nxt is not None and \
                not (nxt.startswith(SAVE_OK if t == "save" else WRITE_OK) or nxt in ("@dir", "@out") or (t != "save" and nxt in ("-", ""))):
            return False
    return True


def case_grammar(ctx, lo, hi):
    T = tables()
    run_batch(ctx, ("grammar", lo), [gen_grammar(ctx.rng("c18-grammar", i), T) for i in range(lo, hi)], 3)


def case_mutants(ctx, lo, hi):
    run_batch(ctx, ("mutants", lo), [gen_mutant(ctx.rng("c18-mutant", i)) for i in range(lo, hi)], 3)


def case_filters(ctx, lo, hi):
    T = tables()
    run_batch(ctx, ("filters", lo), [gen_filter(ctx.rng("c18-filter", i), T) for i in range(lo, hi)], 3)


def case_help(ctx, lo, hi):
    run_batch(ctx, ("help", lo), help_commands()[lo:hi], 4)


def case_files(ctx, lo, hi, stride, phase):
    run_batch(ctx, ("files", lo), file_commands()[lo:hi][phase::stride], 3)


WITNESSES = [
    # minimal command lines of the mechanisms this check has reported (kept: they have to stay clean once repaired) ...
    ("cnfgen", ["kcolor", "2", "complete", "3", ""], "empty"),                 # empty token in a graph specification
    ("pbgen", ["kcolor", "2", "complete", "3", ""], "empty"),
    ("cnfgen", ["kcolor", "2", "@dir"], "empty"),                              # directory as a graph file
    ("pbgen", ["kcolor", "2", "gml", "@dir.gml"], "empty"),
    ("cnfgen", ["php", "2", "1", "-T", "xorcomp", "@dir"], "empty"),
    ("cnfgen", ["pitfall", "2", "2", "1", "2", "2"], "empty"),                 # degree = number of vertices
    ("pbgen", ["pitfall", "2", "2", "1", "2", "2"], "empty"),
    ("cnfgen", ["pitfall", "2", "1", "1", "1", "2"], "empty"),                 # a single safety variable
    ("pbgen", ["pitfall", "2", "1", "1", "1", "2"], "empty"),
    ("cnfgen", ["and", HUGE, "1"], "empty"),                                   # numbers beyond the machine word
    ("pbgen", ["and", HUGE, "1"], "empty"),
    ("cnfgen", ["kcolor", "2", "gnp", HUGE, ".5"], "empty"),
    ("pbgen", ["kcolor", "2", "gnp", HUGE, ".5"], "empty"),
    ("cnfgen", ["php", "2", "1", "-T", "xor", HUGE], "empty"),
    ("kthlist2pebbling", ["xor", HUGE], "kthlist"),
    ("kthlist2pebbling", ["xorcomp", "complete", "2", "2", ""], "kthlist"),
    ("kthlist2pebbling", ["xorcomp", "@dir"], "kthlist"),
    ("cnfgen", ["php", "--", "-h"], "empty"),                                  # help of php's inner parser is empty
    ("pbgen", ["php", "--", "-h"], "empty"),
    ("cnfshuffle", ["--foo"], "cnf"),                                          # error messages of the two filters
    ("cnfshuffle", [], "garbage"),
    ("cnfshuffle", ["-i", "@bin.cnf"], "empty"),
    ("kthlist2pebbling", ["--foo"], "kthlist"),
    ("kthlist2pebbling", ["xorcomp", "complete", "2", "2"], "kthlist"),
    ("kthlist2pebbling", [], "garbage"),
    # ... and of the defects repaired before this check existed (DESIGN section 6)
    ("cnfgen", ["vdw", "5", "1", "3"], "empty"), ("cnfgen", ["kcolor", "2", "gnd", "4", "4"], "empty"),
    ("cnfgen", ["op", "4", "4"], "empty"), ("cnfgen", ["php", "glrm", "2", "2", "4"], "empty"),
    ("kthlist2pebbling", [], "empty"), ("cnfgen", ["peb", "@empty.kthlist"], "empty"),
    ("cnfgen", ["kcolor", "2", "@blankline.dimacs"], "empty"), ("cnfgen", ["--seed", "0", "randkcnf", "2", "3", "2"], "empty"),
    ("cnfgen", ["ramlb", "2", "3", "complete", "3"], "empty"),
]


def case_witnesses(ctx):
    cmds = [{"tool": t, "argv": list(a), "stdin": s, "ops": [], "files": [], "gen": "witness"} for t, a, s in WITNESSES]
    run_batch(ctx, ("witnesses", 0), cmds, 4)


def case_numberlike_tokens(ctx, lo, hi):
    """Every numeric position of every graph construction and option, and the integer arguments of a few sub-commands,
    holding every spelling of NUMBERLIKE (ratios, exponents, special floats, other digits): whatever a number parser
    makes of them, the tool answers with a formula or with a shielded error."""
    frames = []
    for gtype, lead in (("simple", ["kcolor", "2"]), ("bipartite", ["php"]), ("dag", ["peb"])):
        specs = {"simple": [["gnp", "4", ".5"], ["gnp", "2", ".5", "2"], ["gnm", "4", "3"], ["gnd", "4", "2"], ["grid", "2", "2"], ["torus", "3"],
                            ["complete", "3"], ["complete", "2", "2"], ["empty", "3"], ["complete", "3", "plantclique", "2"],
                            ["empty", "4", "addedges", "2"], ["complete", "3", "splitedges", "1"]],
                 "bipartite": [["glrp", "2", "2", ".5"], ["glrm", "2", "2", "2"], ["glrd", "2", "2", "1"], ["regular", "2", "2", "1"],
                               ["shift", "2", "2", "0"], ["complete", "2", "2"], ["empty", "2", "2", "addedges", "1"],
                               ["empty", "2", "2", "plantbiclique", "1", "1"]],
                 "dag": [["path", "3"], ["tree", "2"], ["pyramid", "2"]]}[gtype]
        for spec in specs:
            for i, t in enumerate(spec):
                if is_number(t):
                    frames.append((lead, spec, i))
    for lead, spec in ((["php"], ["3", "2"]), (["tseitin"], ["4", "2"]), (["op"], ["4", "2"]), (["randkcnf"], ["2", "4", "3"]),
                       (["and"], ["2", "1"]), (["php", "2", "1", "-T", "xorcomp"], ["2", "1"]), (["php", "2", "1", "-T", "xor"], ["2"]),
                       (["count"], ["4", "2"]), (["vdw"], ["4", "2", "2"])):
        for i in range(len(spec)):
            frames.append((lead, spec, i))
    cmds = []
    for lead, spec, i in frames:
        for tok in NUMBERLIKE:
            argv = list(lead) + spec[:i] + [tok] + spec[i + 1:]
            cmds.append({"tool": "cnfgen", "argv": argv, "stdin": "empty", "ops": ["boundary-number"], "files": [], "gen": "numberlike"})
    cmds = cmds[lo:hi]
    ctx.count("numberlike_tokens_in_numeric_slots", len(cmds))
    run_batch(ctx, ("numberlike", lo), cmds, 1)


GRAPH_WORDS = ["simple", "dag", "digraph", "bipartite", "graph", "kthlist", "gml", "dot", "dimacs", "matrix", "gnp", "gnm", "gnd", "grid", "torus",
               "complete", "empty", "glrp", "glrm", "glrd", "regular", "shift", "path", "tree", "pyramid", "plantclique", "plantbiclique",
               "addedges", "splitedges", "save", "autodetect", "-", "--", "file", "stdin", "none", "None", "0", "1"]


def case_words_after_a_graph(ctx, lo, hi):
    """A complete graph argument (file, format + file, construction; also inside -T xorcomp) followed or preceded by
    every word the graph grammar knows -- type names, format names, constructions, options: a formula or a shielded
    error, never a traceback."""
    frames = []
    for lead, specs in ((["kcolor", "2"], [["@simple.gml"], ["gml", "@simple.gml"], ["@simple.kthlist"], ["@missing.gml"], ["gml", "@missing"],
                                           ["gnp", "4", ".5"], ["complete", "3"], ["complete", "3", "addedges", "0"]]),
                        (["php"], [["@bip.matrix"], ["matrix", "@bip.matrix"], ["kthlist", "@bip.kthlist"], ["glrd", "3", "3", "1"], ["@missing.matrix"]]),
                        (["peb"], [["@dag.kthlist"], ["kthlist", "@dag.kthlist"], ["pyramid", "2"], ["@missing.kthlist"]]),
                        (["php", "3", "2", "-T", "xorcomp"], [["complete", "6", "2"], ["matrix", "@missing"], ["glrd", "6", "3", "2"]])):
        for spec in specs:
            frames.append((lead, spec))
    cmds = []
    for lead, spec in frames:
        for w in GRAPH_WORDS:
            for argv in (lead + spec + [w], lead + [w] + spec, lead + spec[:1] + [w] + spec[1:]):
                for tool in ("cnfgen", "pbgen") if "-T" not in lead else ("cnfgen",):
                    cmds.append({"tool": tool, "argv": list(argv), "stdin": "empty", "ops": ["word-next-to-graph"],
                                 "files": ["missing"] if any("missing" in t for t in argv) else [], "gen": "graphwords"})
    cmds = cmds[lo:hi]
    ctx.count("words_next_to_a_graph_argument", len(cmds))
    run_batch(ctx, ("graphwords", lo), cmds, 1)


def case_long_command_lines(ctx):
    """Valid command lines of 500 to 4000 characters (they are echoed in the header of the formula, one long comment line)."""
    cmds = []
    for tool in ("cnfgen", "pbgen"):
        for reps in (60, 100, 124, 125, 130, 200, 400):
            if tool == "cnfgen":
                cmds.append({"tool": tool, "argv": ["and", "1", "1"] + ["-T", "none"] * reps, "stdin": "empty", "ops": [], "files": [], "gen": "long"})
                cmds.append({"tool": tool, "argv": ["-v", "and", "1", "1"] + ["-T", "none"] * reps, "stdin": "empty", "ops": [], "files": [], "gen": "long"})
        for cols in (100, 240, 330, 500, 1000):
            cmds.append({"tool": tool, "argv": ["vdw", "4"] + ["2"] * cols, "stdin": "empty", "ops": [], "files": [], "gen": "long"})
            cmds.append({"tool": tool, "argv": ["-of", "dimacs" if tool == "pbgen" else "opb", "vdw", "3"] + ["2"] * cols, "stdin": "empty", "ops": [],
                         "files": [], "gen": "long"})
    ctx.count("long_command_lines", len(cmds))
    run_batch(ctx, ("long-command-lines", 0), cmds, 2)


def case_optimized_interpreters(ctx, lo, hi):
    """One valid command line per sub-command (and per output format for a few), run as real processes under
    `python -OO` (no asserts, no docstrings) and `python -O`: the tools must print what they print otherwise."""
    oc.selfcheck()
    seen, cmds = set(), []
    for sub, a in argvcorpus.small(randomized=False):
        if sub in seen:
            continue
        seen.add(sub)
        cmds.append(("cnfgen", list(a)))
        cmds.append(("pbgen", list(a)))
    for pre in (["-of", "latex"], ["-of", "opb"], ["-v", "--varnames"]):
        for b in (["php", "3", "2"], ["peb", "pyramid", "1"], ["stone", "2", "path", "2"], ["op", "3"], ["tseitin", "first", "grid", "2", "2"]):
            cmds.append(("cnfgen", pre + b))
    cmds.append(("cnfshuffle", ["-S", "5"]))
    cmds.append(("kthlist2pebbling", []))
    cmds.append(("kthlist2pebbling", ["xor", "2"]))
    zoo = Zoo()
    try:
        for i, (tool, argv) in enumerate(cmds[lo:hi]):
            stdin_kind = "cnf" if tool == "cnfshuffle" else "kthlist" if tool == "kthlist2pebbling" else "empty"
            if any(t.startswith("@") for t in argv):
                continue
            base = spawn(tool, zoo.render(argv), STDIN[stdin_kind], cwd=zoo.root, env=SPAWN_ENV, timeout=120)
            for flag in ("-OO", "-O") if i % 3 == 0 else ("-OO",):
                o = spawn(tool, zoo.render(argv), STDIN[stdin_kind], cwd=zoo.root, env=SPAWN_ENV, timeout=120, pyflags=[flag])
                ctx.count("optimized_interpreter_runs")
                label = "python %s: %s %s" % (flag, tool, " ".join(argv))
                if oc.TRACEBACK in o.err:
                    et = o.err.strip().split("\n")[-1].split(":")[0]
                    ctx.violation("%s:python%s:unhandled:%s" % (tool, flag, et), "%s terminates through an unhandled exception: %r" % (label, o.err[-300:]),
                                  tool=tool, argv=argv)
                elif o.rc != base.rc:
                    ctx.violation("%s:python%s:another-exit-status" % (tool, flag), "%s exits with %r, the ordinary interpreter with %r; stderr %r"
                                  % (label, o.rc, base.rc, o.err[-200:]), tool=tool, argv=argv)
                elif base.rc == 0 and oc.lines_of(o.out)[:0] == [] and \
                        [l for l in o.out.splitlines() if not l.startswith(("c ", "c", "*", "%"))] != [l for l in base.out.splitlines() if not l.startswith(("c ", "c", "*", "%"))] \
                        and "latex" not in argv:
                    ctx.violation("%s:python%s:another-formula" % (tool, flag), "%s prints other non-comment lines than the ordinary interpreter" % label,
                                  tool=tool, argv=argv)
                ctx.judged((tool, tuple(argv), flag), nontrivial=True, sample={"command": label, "status": o.rc})
    finally:
        zoo.close()


def case_odd_input_files(ctx):
    """Input files that are small but ask for care: a legal DIMACS file whose problem line declares 10^15 (2^60)
    variables and one (no) clause -- copying it needs no memory to speak of; graph files named *.gz holding a valid gzip
    stream, a stream cut short, a stream with damaged data, plain text, nothing.  Real processes; a formula or a
    shielded error, never a traceback."""
    import gzip
    oc.selfcheck()
    zoo = Zoo()
    try:
        root = zoo.root
        files = {"huge1.cnf": b"p cnf 1000000000000000 1\n1 -2 0\n", "huge2.cnf": b"c nothing to say\np cnf 1152921504606846976 0\n"}
        for stem, text in (("g.kthlist", KTH_SIMPLE), ("g.gml", GML_SIMPLE), ("d.kthlist", KTH_DAG), ("b.matrix", MATRIX_BIP)):
            raw = gzip.compress(text.encode("utf-8"))
            files[stem + ".gz"] = raw
            files["cut-" + stem + ".gz"] = raw[: max(12, len(raw) // 2)]
            files["bad-" + stem + ".gz"] = raw[:14] + bytes((b ^ 0x5a) for b in raw[14:-8]) + raw[-8:]
            files["text-" + stem + ".gz"] = text.encode("utf-8")
            files["empty-" + stem + ".gz"] = b""
        for name, content in files.items():
            with open(os.path.join(root, name), "wb") as f:
                f.write(content)
        runs = []
        for tool in ("cnfgen", "pbgen"):
            for h in ("huge1.cnf", "huge2.cnf"):
                runs.append((tool, ["-q", "dimacs", os.path.join(root, h)], "copy"))
                runs.append((tool, ["-q", "-of", "opb", "dimacs", os.path.join(root, h)], "copy"))
            for pre in ("", "cut-", "bad-", "text-", "empty-"):
                runs.append((tool, ["-q", "kcolor", "2", os.path.join(root, pre + "g.kthlist.gz")], "graph"))
                runs.append((tool, ["-q", "kcolor", "2", "gml", os.path.join(root, pre + "g.gml.gz")], "graph"))
                runs.append((tool, ["-q", "peb", os.path.join(root, pre + "d.kthlist.gz")], "graph"))
                runs.append((tool, ["-q", "php", os.path.join(root, pre + "b.matrix.gz")], "graph"))
        for pre in ("", "cut-", "bad-"):
            runs.append(("cnfgen", ["-q", "php", "3", "2", "-T", "xorcomp", os.path.join(root, pre + "b.matrix.gz")], "graph"))
        for tool, argv, what in runs:
            o = spawn(tool, argv, "", cwd=root, env=SPAWN_ENV, timeout=120)
            ctx.count("odd_input_file_runs")
            label = "%s %s" % (tool, " ".join(a.replace(root, "<dir>") for a in argv))
            if oc.TRACEBACK in o.err:
                et = o.err.strip().split("\n")[-1].split(":")[0]
                ctx.violation("%s:%s:unhandled:%s" % (tool, "dimacs-with-huge-declared-size" if what == "copy" else "gz-named-graph-file", et),
                              "%s terminates through an unhandled exception: %r" % (label, o.err[-300:]), tool=tool, argv=argv)
            elif what == "copy" and (o.rc != 0 or not any(t in o.out for t in ("1000000000000000", "1152921504606846976"))):
                ctx.violation("%s:dimacs-with-huge-declared-size:not-copied" % tool, "%s: exit status %r, output %r, stderr %r"
                              % (label, o.rc, o.out[:120], o.err[-200:]), tool=tool, argv=argv)
            elif o.rc != 0 and not o.err.strip():
                ctx.violation("%s:fails-silently" % tool, "%s: exit status %r without a message" % (label, o.rc), tool=tool, argv=argv)
            ctx.judged((tool, tuple(a.replace(root, "") for a in argv)), nontrivial=True, sample={"command": label, "status": o.rc})
    finally:
        zoo.close()


def case_outside_git_tree(ctx):
    """Real processes started in a directory that is not inside any git work tree (cnfgen/info.py asks git for the version)."""
    oc.selfcheck()
    zoo = Zoo()
    try:
        for tool, argv, stdin_kind in (("cnfgen", ["php", "x", "y", "z", "w"], "empty"), ("pbgen", ["-of", "dimacs", "php", "2"], "empty"),
                                       ("cnfgen", ["php", "2", "1"], "empty"), ("cnfgen", ["-V"], "empty"),
                                       ("kthlist2pebbling", [], "empty"), ("cnfshuffle", [], "cnf")):
            o = spawn(tool, zoo.render(argv), STDIN[stdin_kind], cwd=zoo.root, env=SPAWN_ENV, timeout=120)
            ctx.count("outside_git_tree_runs")
            label = "%s %s (working directory outside any git work tree)" % (tool, " ".join(argv))
            noise = [l for l in oc.lines_of(o.err) if l.startswith("fatal:") or "not a git repository" in l]
            if o.rc != 0 and oc.TRACEBACK in o.err:
                et = o.err.strip().split("\n")[-1].split(":")[0]
                ctx.violation("all-tools:import:unhandled:%s:get_version" % et, "%s: terminates through an unhandled exception: %r"
                              % (label, o.err[-300:]), tool=tool, argv=argv, cwd="a directory outside any git work tree")
            elif noise and o.rc != 0:
                ctx.violation("all-tools:import:unprefixed-error-message:git-describe-complaint",
                              "%s: fails with status %d and the error stream starts with git's unprefixed line %r (cnfgen/info.py runs "
                              "'git describe' in the user's working directory without capturing its stderr)" % (label, o.rc, noise[0]),
                              tool=tool, argv=argv, stderr=o.err[:400], cwd="a directory outside any git work tree")
            elif noise:
                ctx.count("outside_git_tree:git-complaint-next-to-a-successful-run")
            ctx.judged((tool, tuple(argv), stdin_kind, "outside-git-tree"), nontrivial=True,
                       sample={"command": label, "status": o.rc, "stderr_first_line": o.err.split("\n")[0][:100]})
    finally:
        zoo.close()


def case_terminal(ctx):
    """Real processes whose standard input is a terminal (a pty) while standard output is a pipe, and the reverse:
    the tools that read a formula / graph from <stdin> print a notice for the interactive user in that situation."""
    import pty
    import subprocess as sp
    from .. import REPO
    from ..refmodels import c06_dimacs
    oc.selfcheck()
    cnf = "p cnf 3 2\n1 -2 0\n2 3 0\n"
    dag = "3\n1 : 0\n2 : 1 0\n3 : 1 2 0\n"
    runs = [("cnfshuffle", [], cnf), ("cnfshuffle", ["-q"], cnf), ("cnfshuffle", ["-p", "-v", "-c"], cnf),
            ("kthlist2pebbling", [], dag), ("kthlist2pebbling", ["-q"], dag), ("cnfgen", ["-q", "dimacs"], cnf),
            ("cnfgen", ["-q", "peb", "kthlist", "-"], dag), ("cnfgen", ["-q", "php", "3", "2"], ""), ("pbgen", ["-q", "php", "3", "2"], "")]
    for tool, argv, typed in runs:
        code = ("import sys; sys.path.insert(0, %r); sys.argv[0] = %r; from cnfgen.clitools.%s import main; main()" % (REPO, tool, tool))
        master, slave = pty.openpty()
        try:
            env = dict(os.environ)
            env.pop("PYTHONPATH", None)
            env["PYTHONPYCACHEPREFIX"] = os.path.join(tempfile.gettempdir(), "vmon-pycache-%d" % os.getuid())
            env.pop("PYTHONDONTWRITEBYTECODE", None)
            p = sp.Popen([sys.executable, "-c", code] + argv, stdin=slave, stdout=sp.PIPE, stderr=sp.PIPE, env=env, cwd=REPO)
            os.close(slave)
            slave = None
            if typed:
                os.write(master, typed.encode() + b"\x04")
            try:
                out, err = p.communicate(timeout=60)
            except sp.TimeoutExpired:
                p.kill()
                p.communicate()
                ctx.problems.append({"kind": "pty-run-timeout", "case": ctx.case, "traceback": "%s %r" % (tool, argv)})
                continue
        finally:
            os.close(master)
            if slave is not None:
                os.close(slave)
        out, err = out.decode("utf-8", "replace"), err.decode("utf-8", "replace")
        ctx.count("terminal_stdin_runs")
        label = "%s %s with a terminal as <stdin> and a pipe as <stdout>" % (tool, " ".join(argv))
        if oc.TRACEBACK in err:
            ctx.violation("%s:terminal-stdin:unhandled-exception" % tool, "%s: %r" % (label, err[-300:]))
        elif p.returncode == 0:
            ok = False
            if tool == "pbgen":
                ok = out.lstrip().startswith("* #variable=")
            else:
                try:
                    nv, cls = c06_dimacs.read(out)
                    ok = True
                except Exception:          # noqa: BLE001
                    ok = False
            if not ok:
                ctx.violation("%s:terminal-stdin:exit-0-without-complete-formula" % tool,
                              "%s: exit status 0 but <stdout> holds %r" % (label, out[:120]), stderr=err[:300])
        elif any(l.startswith("p cnf") for l in out.splitlines()):
            ctx.violation("%s:terminal-stdin:formula-and-failure" % tool, "%s: status %d after writing a formula" % (label, p.returncode))
        ctx.judged((tool, tuple(argv), "pty-stdin"), nontrivial=True, sample={"command": label, "status": p.returncode,
                                                                              "stderr_first_line": err.split("\n")[0][:100]})


def case_unseekable(ctx):
    """Real processes whose input file is a path that cannot be rewound: /dev/stdin and /dev/fd/0 fed by a pipe, and a
    named pipe.  Reading such a source once is all a tool may rely on: the outcome is a complete formula or a clean error."""
    import subprocess as sp
    import threading
    from .. import REPO
    from ..refmodels import c06_dimacs
    oc.selfcheck()
    cnf = "p cnf 3 2\n1 -2 0\n2 3 0\n"
    dag = "3\n1 : 0\n2 : 1 0\n3 : 1 2 0\n"
    simple = "c g\n3\n1 : 2 3 0\n2 : 1 0\n3 : 1 0\n"
    runs = [("cnfgen", ["-q", "dimacs", "SRC"], cnf, 2), ("cnfgen", ["dimacs", "SRC"], cnf, 2), ("cnfgen", ["-q", "-of", "latex", "dimacs", "SRC"], cnf, None),
            ("pbgen", ["-q", "dimacs", "SRC"], cnf, None), ("cnfgen", ["-q", "dimacs", "SRC", "-T", "xor", "2"], cnf, 8),
            ("cnfshuffle", ["-q", "-p", "-v", "-c", "-i", "SRC"], cnf, 2), ("kthlist2pebbling", ["-q", "-i", "SRC"], dag, 4),
            ("cnfgen", ["-q", "peb", "kthlist", "SRC"], dag, 4), ("cnfgen", ["-q", "kcolor", "2", "kthlist", "SRC"], simple, None),
            ("cnfgen", ["-q", "kcolor", "2", "kthlist", "SRC", "addedges", "0"], simple, None)]
    scratch = tempfile.mkdtemp(prefix="vmon-c18u-", dir="/tmp")
    try:
        for tool, argv0, text, nclauses in runs:
            for source in ("/dev/stdin", "/dev/fd/0", "fifo"):
                code = ("import sys; sys.path.insert(0, %r); sys.argv[0] = %r; from cnfgen.clitools.%s import main; main()" % (REPO, tool, tool))
                env = dict(os.environ)
                env.pop("PYTHONPATH", None)
                env["PYTHONPYCACHEPREFIX"] = os.path.join(tempfile.gettempdir(), "vmon-pycache-%d" % os.getuid())
                env.pop("PYTHONDONTWRITEBYTECODE", None)
                writer = None
                if source == "fifo":
                    path = os.path.join(scratch, "pipe%d" % len(os.listdir(scratch)))
                    os.mkfifo(path)

                    def feed(path=path, text=text):
                        try:
                            fd = os.open(path, os.O_WRONLY)
                            os.write(fd, text.encode())
                            os.close(fd)
                        except OSError:
                            pass
                    writer = threading.Thread(target=feed, daemon=True)
                    writer.start()
                    src = path
                else:
                    src = source
                argv = [src if t == "SRC" else t for t in argv0]
                p = sp.Popen([sys.executable, "-c", code] + argv, stdin=sp.PIPE if source != "fifo" else sp.DEVNULL, stdout=sp.PIPE, stderr=sp.PIPE,
                             env=env, cwd=REPO)
                try:
                    out, err = p.communicate(text.encode() if source != "fifo" else None, timeout=60)
                except sp.TimeoutExpired:
                    p.kill()
                    p.communicate()
                    if writer is not None:
                        try:        # release a writer still blocked in open()
                            fd = os.open(src, os.O_RDONLY | os.O_NONBLOCK)
                            os.close(fd)
                        except OSError:
                            pass
                    ctx.problems.append({"kind": "unseekable-run-timeout", "case": ctx.case, "traceback": "%s %r" % (tool, argv)})
                    continue
                out, err = out.decode("utf-8", "replace"), err.decode("utf-8", "replace")
                ctx.count("unseekable_input_runs")
                label = "%s %s with %s as the input file" % (tool, " ".join("<src>" if t == src else t for t in argv),
                                                              "a named pipe" if source == "fifo" else source + " (a pipe)")
                if oc.TRACEBACK in err:
                    ctx.violation("%s:unseekable-input:unhandled-exception" % tool, "%s: %r" % (label, err[-300:]))
                elif p.returncode == 0:
                    ok, got = False, None
                    if tool == "pbgen":
                        ok = out.lstrip().startswith("* #variable=")
                    elif "latex" in argv:
                        ok = "\\begin" in out or "\\land" in out or "\\lor" in out or "\\neg" in out or "\\top" in out
                    else:
                        try:
                            nv, cls = c06_dimacs.read(out)
                            ok, got = True, len(cls)
                        except Exception:          # noqa: BLE001
                            ok = False
                    if not ok:
                        ctx.violation("%s:unseekable-input:exit-0-without-complete-formula" % tool,
                                      "%s: exit status 0 but <stdout> holds %r" % (label, out[:120]), stderr=err[:300])
                    elif nclauses is not None and got != nclauses:
                        ctx.violation("%s:unseekable-input:another-formula" % tool, "%s: %d clauses, expected %d" % (label, got, nclauses))
                elif any(l.startswith("p cnf") for l in out.splitlines()):
                    ctx.violation("%s:unseekable-input:formula-and-failure" % tool, "%s: status %d after writing a formula" % (label, p.returncode))
                ctx.judged((tool, tuple(argv0), source), nontrivial=p.returncode == 0,
                           sample={"command": label, "status": p.returncode, "stderr_first_line": err.split("\n")[0][:100]})
    finally:
        shutil.rmtree(scratch, ignore_errors=True)


def case_streams(ctx):
    """Real processes with unusual standard streams: file descriptor 0 closed at start (sys.stdin is None), and a terminal
    as <stdout> for the help texts that go through $PAGER.  Same alternatives as everywhere: a complete formula, a help
    text that is actually shown, or a clean error -- never a traceback, never status 0 with nothing."""
    import pty
    import subprocess as sp
    from .. import REPO
    from ..refmodels import c06_dimacs
    oc.selfcheck()
    scratch = tempfile.mkdtemp(prefix="vmon-c18s-", dir="/tmp")
    try:
        cnfp = os.path.join(scratch, "f.cnf")
        dagp = os.path.join(scratch, "d.kthlist")
        with open(cnfp, "w") as f:
            f.write("p cnf 3 2\n1 -2 0\n2 3 0\n")
        with open(dagp, "w") as f:
            f.write("3\n1 : 0\n2 : 1 0\n3 : 1 2 0\n")
        env = dict(os.environ)
        env.pop("PYTHONPATH", None)
        env["PYTHONPYCACHEPREFIX"] = os.path.join(tempfile.gettempdir(), "vmon-pycache-%d" % os.getuid())
        env.pop("PYTHONDONTWRITEBYTECODE", None)
        env["PAGER"] = "cat"
        env["TMPDIR"] = scratch           # the tools leave the file they hand to the pager behind: keep it inside the scratch directory

        def code(tool):
            return "import sys; sys.path.insert(0, %r); sys.argv[0] = %r; from cnfgen.clitools.%s import main; main()" % (REPO, tool, tool)
        # ---- no standard input at all
        runs = [("cnfgen", ["-q", "php", "3", "2"], "formula"), ("pbgen", ["-q", "php", "3", "2"], "formula"), ("cnfgen", ["-h"], "help"),
                ("cnfgen", ["php", "-h"], "help"), ("cnfgen", ["-q", "php"], "error"), ("cnfgen", ["-q", "dimacs", cnfp], "formula"),
                ("cnfgen", ["-q", "dimacs", cnfp, "-T", "shuffle"], "formula"), ("cnfshuffle", ["-q", "-i", cnfp], "formula"),
                ("kthlist2pebbling", ["-q", "-i", dagp], "formula"), ("cnfgen", ["-q", "peb", dagp], "formula"),
                ("cnfgen", ["-q", "kcolor", "2", "kthlist", dagp], "any"), ("cnfgen", ["-q", "dimacs"], "error"), ("cnfgen", ["-q", "dimacs", "-"], "error"),
                ("cnfshuffle", ["-q"], "error"), ("kthlist2pebbling", ["-q"], "error"), ("cnfgen", ["-q", "peb", "kthlist", "-"], "error"),
                ("pbgen", ["-q", "dimacs"], "error"), ("cnfgen", ["--tutorial"], "help"), ("cnfgen", ["--help-dag"], "help")]
        for tool, argv, expect in runs:
            p = sp.Popen([sys.executable, "-c", code(tool)] + argv, stdin=None, stdout=sp.PIPE, stderr=sp.PIPE, env=env, cwd=REPO,
                         preexec_fn=lambda: os.close(0))
            try:
                out, err = p.communicate(timeout=60)
            except sp.TimeoutExpired:
                p.kill()
                p.communicate()
                ctx.problems.append({"kind": "closed-stdin-run-timeout", "case": ctx.case, "traceback": "%s %r" % (tool, argv)})
                continue
            out, err = out.decode("utf-8", "replace"), err.decode("utf-8", "replace")
            ctx.count("closed_stdin_runs")
            label = "%s %s started with its standard input closed" % (tool, " ".join("<file>" if t in (cnfp, dagp) else t for t in argv))
            if oc.TRACEBACK in err:
                ctx.violation("%s:closed-stdin:unhandled-exception" % tool, "%s: %r" % (label, err[-300:]))
            elif p.returncode == 0:
                if expect == "help":
                    ok = len(out.strip()) > 40
                elif tool == "pbgen":
                    ok = out.lstrip().startswith("* #variable=")
                else:
                    try:
                        c06_dimacs.read(out)
                        ok = True
                    except Exception:          # noqa: BLE001
                        ok = False
                if not ok:
                    ctx.violation("%s:closed-stdin:exit-0-without-%s" % (tool, "help-text" if expect == "help" else "complete-formula"),
                                  "%s: exit status 0 but <stdout> holds %r" % (label, out[:120]), stderr=err[:300])
                elif expect == "error":
                    ctx.violation("%s:closed-stdin:formula-from-nowhere" % tool, "%s: there is nothing to read, yet status 0 and %r" % (label, out[:80]))
            elif expect in ("formula", "help"):
                ctx.violation("%s:closed-stdin:refuses-a-request-that-needs-no-input" % tool, "%s: status %r, %r" % (label, p.returncode, err[-200:]))
            elif any(l.startswith("p cnf") for l in out.splitlines()):
                ctx.violation("%s:closed-stdin:formula-and-failure" % tool, "%s: status %d after writing a formula" % (label, p.returncode))
            ctx.judged((tool, tuple(argv[:3]), "closed-stdin"), nontrivial=True, sample={"command": label, "status": p.returncode})
        # ---- help texts with a terminal as <stdout> ($PAGER=cat shows them on that terminal)
        for tool, argv in (("cnfgen", ["--tutorial"]), ("cnfgen", ["--help-graph"]), ("cnfgen", ["--help-bipartite"]), ("cnfgen", ["--help-dag"]),
                           ("pbgen", ["--help-graph"]), ("pbgen", ["--help-dag"]), ("cnfgen", ["-h"]), ("cnfgen", ["php", "-h"]),
                           ("cnfgen", ["-q", "php", "2", "1"]), ("pbgen", ["-q", "php", "2", "1"])):
            master, slave = pty.openpty()
            try:
                p = sp.Popen([sys.executable, "-c", code(tool)] + argv, stdin=sp.DEVNULL, stdout=slave, stderr=sp.PIPE, env=env, cwd=REPO)
                os.close(slave)
                slave = None
                shown = b""
                import select
                import time
                deadline = time.time() + 60
                while time.time() < deadline:
                    rl, _, _ = select.select([master], [], [], 0.5)
                    if rl:
                        try:
                            chunk = os.read(master, 65536)
                        except OSError:
                            break
                        if not chunk:
                            break
                        shown += chunk
                    elif p.poll() is not None:
                        break
                try:
                    _, err = p.communicate(timeout=30)
                except sp.TimeoutExpired:
                    p.kill()
                    p.communicate()
                    ctx.problems.append({"kind": "pty-run-timeout", "case": ctx.case, "traceback": "%s %r" % (tool, argv)})
                    continue
            finally:
                os.close(master)
                if slave is not None:
                    os.close(slave)
            text, err = shown.decode("utf-8", "replace"), err.decode("utf-8", "replace")
            ctx.count("terminal_stdout_runs")
            label = "%s %s with a terminal as <stdout> (PAGER=cat)" % (tool, " ".join(argv))
            if oc.TRACEBACK in err:
                ctx.violation("%s:terminal-stdout:unhandled-exception" % tool, "%s: %r" % (label, err[-300:]))
            elif p.returncode == 0 and len(text.strip()) < 20:
                ctx.violation("%s:terminal-stdout:exit-0-with-nothing-shown" % tool, "%s: status 0, the terminal received %r, <stderr> %r"
                              % (label, text[:80], err[:200]))
            elif p.returncode != 0:
                ctx.violation("%s:terminal-stdout:refuses" % tool, "%s: status %r, %r" % (label, p.returncode, err[-200:]))
            ctx.judged((tool, tuple(argv), "pty-stdout"), nontrivial=True, sample={"command": label, "status": p.returncode, "shown_chars": len(text)})
    finally:
        shutil.rmtree(scratch, ignore_errors=True)


def case_broken_dependency(ctx):
    """Real processes in which the optional dot library can be found but fails to import (pydot installed without its own
    dependency): commands that need dot files end in a clean error, all others work."""
    import subprocess as sp
    from .. import REPO
    from ..refmodels import c06_dimacs
    oc.selfcheck()
    scratch = tempfile.mkdtemp(prefix="vmon-c18d-", dir="/tmp")
    try:
        fake = os.path.join(scratch, "site")
        os.mkdir(fake)
        with open(os.path.join(fake, "pydot.py"), "w") as f:
            f.write("raise ImportError(\"No module named 'pyparsing'\")\n")
        dot = os.path.join(scratch, "g.dot")
        with open(dot, "w") as f:
            f.write("graph G {\n 1 -- 2;\n 2 -- 3;\n}\n")
        ddot = os.path.join(scratch, "d.dot")
        with open(ddot, "w") as f:
            f.write("digraph G {\n 1 -> 2;\n 2 -> 3;\n}\n")
        env = dict(os.environ)
        env["PYTHONPATH"] = fake
        env["PYTHONPYCACHEPREFIX"] = os.path.join(tempfile.gettempdir(), "vmon-pycache-%d" % os.getuid())
        env.pop("PYTHONDONTWRITEBYTECODE", None)
        runs = [("cnfgen", ["-q", "kclique", "2", dot], "error"), ("cnfgen", ["-q", "kclique", "2", "dot", dot], "error"),
                ("cnfgen", ["-q", "peb", ddot], "error"), ("pbgen", ["-q", "kcolor", "2", dot], "error"),
                ("cnfgen", ["-q", "kcolor", "2", "complete", "3", "save", os.path.join(scratch, "x.dot")], "error"),
                ("cnfgen", ["-q", "kcolor", "2", "complete", "3", "save", "dot", os.path.join(scratch, "y.txt")], "error"),
                ("cnfgen", ["-q", "php", "3", "2"], "formula"), ("cnfgen", ["-q", "kcolor", "2", "complete", "3"], "formula"),
                ("cnfgen", ["--help-graph"], "help"), ("cnfgen", ["-h"], "help"), ("kthlist2pebbling", ["-q", "-i", ddot], "error")]
        for tool, argv, expect in runs:
            code = "import sys; sys.path.insert(0, %r); sys.argv[0] = %r; from cnfgen.clitools.%s import main; main()" % (REPO, tool, tool)
            try:
                p = sp.run([sys.executable, "-c", code] + argv, stdin=sp.DEVNULL, capture_output=True, env=env, cwd=REPO, timeout=60)
            except sp.TimeoutExpired:
                ctx.problems.append({"kind": "broken-dependency-run-timeout", "case": ctx.case, "traceback": "%s %r" % (tool, argv)})
                continue
            out, err = p.stdout.decode("utf-8", "replace"), p.stderr.decode("utf-8", "replace")
            ctx.count("broken_dependency_runs")
            label = "%s %s with a dot library that is found but cannot be imported" % (tool, " ".join(t.replace(scratch, "<dir>") for t in argv))
            if oc.TRACEBACK in err:
                ctx.violation("%s:broken-dependency:unhandled-exception" % tool, "%s: %r" % (label, err[-300:]))
            elif p.returncode == 0:
                if expect == "help":
                    ok = len(out.strip()) > 40
                elif tool == "pbgen":
                    ok = out.lstrip().startswith("* #variable=")
                else:
                    try:
                        c06_dimacs.read(out)
                        ok = True
                    except Exception:          # noqa: BLE001
                        ok = False
                if not ok:
                    ctx.violation("%s:broken-dependency:exit-0-without-%s" % (tool, "help-text" if expect == "help" else "complete-formula"),
                                  "%s: exit status 0 but <stdout> holds %r" % (label, out[:120]), stderr=err[:300])
            elif expect in ("formula", "help"):
                ctx.violation("%s:broken-dependency:refuses-a-request-that-needs-no-dot" % tool, "%s: status %r, %r" % (label, p.returncode, err[-200:]))
            ctx.judged((tool, tuple(argv[:3]), "broken-pydot"), nontrivial=True, sample={"command": label, "status": p.returncode})
    finally:
        shutil.rmtree(scratch, ignore_errors=True)


def workload(tier, seed):
    quick = tier == "quick"
    step = 150
    yield "broken_dependency", {}
    yield "long_command_lines", {}
    yield "terminal", {}
    yield "unseekable", {}
    yield "streams", {}
    yield "witnesses", {}          # first: the minimal command line of a mechanism becomes its replay
    yield "odd_input_files", {}
    for lo in range(0, 100, 12):
        yield "optimized_interpreters", {"lo": lo, "hi": lo + 12}
    for lo in range(0, 4800, 400):
        yield "words_after_a_graph", {"lo": lo, "hi": lo + 400}
    for lo in range(0, 2400, 300):
        yield "numberlike_tokens", {"lo": lo, "hi": lo + 300}
    n_grammar, n_mut, n_fil = (2700, 2400, 600) if quick else (33000, 33000, 6000)
    # indices depend on the seed so that another seed is another sample
    base = seed * 1000003
    for lo in range(0, n_grammar, step):
        yield "grammar", {"lo": base + lo, "hi": base + lo + step}
    for lo in range(0, n_mut, step):
        yield "mutants", {"lo": base + lo, "hi": base + lo + step}
    for lo in range(0, n_fil, step):
        yield "filters", {"lo": base + lo, "hi": base + lo + step}
    nh = len(help_commands())
    for lo in range(0, nh, 120):
        yield "help", {"lo": lo, "hi": lo + 120}
    nf = len(file_commands())
    for lo in range(0, nf, 160):
        # quick: every other command of the table (the half depends on the seed), thorough: the whole table
        yield "files", {"lo": lo, "hi": lo + 160, "stride": 2 if quick else 1, "phase": seed % 2 if quick else 0}
    yield "outside_git_tree", {}

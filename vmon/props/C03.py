"""C03 -- contradictions are unsatisfiable and consist of exactly their documented
axioms; Ramsey-type formulas match the avoiding colourings.

Three oracles: (i) exact model sets by truth table under the variable cap
(unsatisfiability, planted orderings, colourings); (ii) an independent axiom
generator per family over *named* atoms, compared with the formula's clauses as
sets of sets of named literals at every size; (iii) direct enumeration of
orders / colourings.
"""
import collections
import itertools
import math
import random

from .. import tt
from .. import semantic as S
from .. import pollute

BEFORE_CASE = pollute.wreck        # state-leak adversary: see vmon/pollute.py

PYTHON_O_STRIDE = {"quick": 4, "thorough": 2}      # every n-th case is repeated in an interpreter started with -O
RULE = ("family x parameters x formula class: ordering principle N in 0..5 and graph ordering on every graph with <= 4 vertices x "
        "{plain,total,smart,knuth2,knuth3} x plant; pebbling on every DAG (topological order) with <= 5 vertices; stone s in 0..3 and "
        "sparse stone with every availability graph <= (4,2) on DAGs with <= 4 vertices; CPLS (a,b,c) under the cap; Pitfall "
        "(v,d) in {(2,1),(4,1)} x ny,nz in {2,3}, k=2 under several RNG states; Ramsey number s,k in 1..4, N <= 6; van der Waerden "
        "N <= 9, 2-3 colours, lengths 1..4; Pythagorean triples N <= 22; larger sizes through the structural axiom comparison only.  "
        "distinct = (family, parameters/graph, class); trivial = formula without variables.")
ASSUMPTIONS = ["vmon/tt.py truth tables (self-checked)", "reference axiom generators in this module written from the docstrings",
               "Pitfall: only the hard part, gadget locality and unsatisfiability have an independent reference (the paper's pipe/tail "
               "gadgets are not compared with an independent specification)"]
REQUIRED = ["exact_cases", "unsatisfiable_cases", "satisfiable_cases", "structural_comparisons", "contradictions_confirmed",
            "planted_orderings_satisfiable", "planted_orderings_unsatisfiable", "large_structural_cases", "opb_cases",
            "sampled_cases", "sampled_true_references", "sampled_false_references", "graph_object_histories",
            "cnf_cases"] + ["family_" + f for f in ("op", "gop", "peb", "stone", "sparsestone", "cpls", "pitfall", "ram", "vdw", "ptn")]
CASE_TIMEOUT = {"quick": 600, "thorough": 3600}


def gens():
    import cnfgen
    return cnfgen


def fam_count(ctx, fam, cls):
    ctx.count("family_" + fam)
    ctx.count(cls.lower() + "_cases")


def raised(ctx, fam, desc, exc, allowed=False):
    if allowed and isinstance(exc, (ValueError, TypeError)):
        ctx.count("refused_expected")
        return
    ctx.violation("%s:raises:%s" % (fam, type(exc).__name__), "%s raised %r" % (desc, exc))


def make(ctx, fam, cls, desc, fn, *a, allowed_refusal=False, **kw):
    K = S.formula_classes()[cls]
    F, exc = S.build(ctx, fam, desc, fn, *a, formula_class=K, **kw)
    if F is None:
        raised(ctx, fam, desc, exc, allowed=allowed_refusal)
        return None
    fam_count(ctx, fam, cls)
    return F


# ------------------------------------------------------------------ structural comparison
def named_clauses(F):
    """Clauses of F (CNF clauses, or OPB constraints that are clauses) as frozensets of (label, sign).
    Returns (set, non_clause_constraints)."""
    labs = list(F.all_variable_labels())
    out, other = set(), []
    if hasattr(F, "_constraints"):
        for con in F:
            if con[-2] == ">=" and con[-1] == 1 and all(c == 1 for c, _ in con[:-2]):
                out.add(frozenset((labs[abs(l) - 1], l > 0) for _, l in con[:-2]))
            else:
                other.append(con)
    else:
        for cl in F:
            out.add(frozenset((labs[abs(l) - 1], l > 0) for l in cl))
    return out, other


def structural(ctx, fam, desc, F, reference, key=None, large=False):
    """reference: iterable of iterables of (label, sign); tautologies in the reference are dropped."""
    ref = set()
    for cl in reference:
        fs = frozenset(cl)
        if any((n, not s) in fs for n, s in fs):
            continue
        ref.add(fs)
    got, other = named_clauses(F)
    got = {fs for fs in got if not any((n, not s) in fs for n, s in fs)}
    ctx.count("structural_comparisons")
    if large:
        ctx.count("large_structural_cases")
    ok = True
    if other:
        ctx.violation("%s:axioms:non-clause-constraint" % fam, "%s: %d constraints are not clauses, e.g. %r" % (desc, len(other), other[0]))
        ok = False
    extra, missing = got - ref, ref - got
    if extra:
        ctx.violation("%s:axioms:extra" % fam, "%s: %d clause(s) are not documented axioms, e.g. %s"
                      % (desc, len(extra), sorted(("" if s else "~") + n for n, s in next(iter(extra)))))
        ok = False
    if missing:
        ctx.violation("%s:axioms:missing" % fam, "%s: %d documented axiom(s) are missing, e.g. %s"
                      % (desc, len(missing), sorted(("" if s else "~") + n for n, s in next(iter(missing)))))
        ok = False
    if key is not None:
        ctx.judged(key, sample={"family": fam, "case": desc, "axioms": len(ref), "mode": "structural"})
    return ok


def contradiction(ctx, fam, desc, F, key, nontrivial=True):
    ok = S.check_models(ctx, fam, desc, F, [], key, nontrivial=nontrivial)
    if ok:
        ctx.count("contradictions_confirmed")
    return ok


# ------------------------------------------------------------------ ordering principles
VARIANTS = [("plain", dict(total=False, smart=False, knuth=0)), ("total", dict(total=True, smart=False, knuth=0)),
            ("smart", dict(total=False, smart=True, knuth=0)), ("knuth2", dict(total=False, smart=False, knuth=2)),
            ("knuth3", dict(total=False, smart=False, knuth=3))]


def x(u, v):
    return "x_{%d,%d}" % (u, v)


def gop_axioms(n, E, variant, plant):
    adj = {u: set() for u in range(1, n + 1)}
    for u, v in E:
        adj[u].add(v)
        adj[v].add(u)
    V = range(1, n + 1)
    smart = variant == "smart"

    def less(u, v):            # literal "u precedes v"
        if not smart:
            return (x(u, v), True)
        return (x(u, v), True) if u < v else (x(v, u), False)
    out = []
    for v in V:
        if plant and v == n:
            continue
        out.append([less(u, v) for u in sorted(adj[v])])
    if smart:
        for a, b, c in itertools.combinations(V, 3):
            out.append([less(a, b), less(b, c), (x(a, c), False)])
            out.append([(x(a, b), False), (x(b, c), False), less(a, c)])
        return out
    for a, b, c in itertools.permutations(V, 3):
        if variant == "knuth2" and not (b > a and b > c):
            continue
        if variant == "knuth3" and not (c > a and c > b):
            continue
        out.append([(x(a, b), False), (x(b, c), False), (x(a, c), True)])
    for a, b in itertools.combinations(V, 2):
        out.append([(x(a, b), False), (x(b, a), False)])
        if variant == "total":
            out.append([(x(a, b), True), (x(b, a), True)])
    return out


def planted_order_exists(n, E):
    """A total order in which every vertex but the last one (n) has a smaller neighbour."""
    adj = {u: set() for u in range(1, n + 1)}
    for u, v in E:
        adj[u].add(v)
        adj[v].add(u)
    for perm in itertools.permutations(range(1, n + 1)):
        pos = {v: i for i, v in enumerate(perm)}
        if all(any(pos[u] < pos[v] for u in adj[v]) for v in range(1, n)):
            return True
    return False


def order_models(n, E, variant, plant, at):
    """Semantic reference for the non-Knuth variants: strict partial (total) orders in which every vertex
    (but n when planted) has a smaller neighbour.  Returns a list of true-variable sets or None."""
    if variant in ("knuth2", "knuth3"):
        return None
    adj = {u: set() for u in range(1, n + 1)}
    for u, v in E:
        adj[u].add(v)
        adj[v].add(u)
    xs = at.get("x_{#,#}", {})
    ordered = [(u, v) for u in range(1, n + 1) for v in range(1, n + 1) if u != v]
    objs = []
    if variant in ("total", "smart"):
        for perm in itertools.permutations(range(1, n + 1)):
            pos = {v: i for i, v in enumerate(perm)}
            if all(any(pos[u] < pos[v] for u in adj[v]) for v in range(1, n + 1) if not (plant and v == n)):
                objs.append([xs[(u, v)] for (u, v) in xs if pos[u] < pos[v]])
        return objs
    if n > 3:
        return None
    for mask in range(1 << len(ordered)):
        rel = {p for i, p in enumerate(ordered) if (mask >> i) & 1}
        if any((v, u) in rel for (u, v) in rel):
            continue
        if any((a, b) in rel and (b, c) in rel and (a, c) not in rel
               for a, b, c in itertools.permutations(range(1, n + 1), 3)):
            continue
        if all(any((u, v) in rel for u in adj[v]) for v in range(1, n + 1) if not (plant and v == n)):
            objs.append([xs[p] for p in rel])
    return objs


def judge_gop(ctx, cls, fam, desc, F, n, E, variant, plant, key, exact):
    nv = n * (n - 1) // 2 if variant == "smart" else n * (n - 1)
    if F.number_of_variables() != nv:
        ctx.violation("%s:numvar" % fam, "%s has %d variables, expected %d" % (desc, F.number_of_variables(), nv))
        return
    structural(ctx, fam, desc, F, gop_axioms(n, E, variant, plant), large=not exact)
    if not exact:
        ctx.judged(key, sample={"family": fam, "case": desc, "mode": "structural"})
        return
    if not plant:
        if n >= 1:
            contradiction(ctx, fam, desc, F, key, nontrivial=n > 1)
        else:
            S.check_models(ctx, fam, desc, F, [[]], key, nontrivial=False)
        return
    at = S.decode(ctx, fam, desc, F)
    if at is None:
        return
    objs = order_models(n, E, variant, plant, at)
    expect_sat = planted_order_exists(n, E) if n >= 1 else True
    ctx.count("planted_orderings_satisfiable" if expect_sat else "planted_orderings_unsatisfiable")
    if objs is not None:
        if bool(objs) != expect_sat:
            raise AssertionError("order reference inconsistent")
        S.check_models(ctx, fam, desc, F, objs, key, nontrivial=n > 1)
    else:
        sat = bool(tt.models_of(F))
        ctx.count("exact_cases")
        ctx.count("satisfiable_cases" if sat else "unsatisfiable_cases")
        if sat != expect_sat:
            ctx.violation("%s:planted:satisfiability" % fam, "%s is %ssatisfiable but an ordering with the single allowed minimum %s"
                          % (desc, "" if sat else "un", "exists" if expect_sat else "does not exist"))
        ctx.judged(key, nontrivial=n > 1, sample={"family": fam, "case": desc, "planted_sat": expect_sat})


def case_op(ctx, cls, N):
    tt.selfcheck()
    g = gens()
    cap = S.CAP[ctx.tier]
    E = S.pairs(N)
    for vname, kw in VARIANTS:
        for plant in (False, True):
            desc = "OrderingPrinciple(%d,%s,plant=%s)[%s]" % (N, vname, plant, cls)
            F = make(ctx, "op", cls, desc, g.OrderingPrinciple, N, plant=plant, **kw)
            if F is None:
                continue
            judge_gop(ctx, cls, "op", desc, F, N, E, vname, plant, ("op", N, vname, plant, cls),
                      exact=F.number_of_variables() <= cap)


def case_gop(ctx, cls, n, masks, as_nx):
    tt.selfcheck()
    g = gens()
    cap = S.CAP[ctx.tier]
    for mask in masks:
        for vname, kw in VARIANTS:
            for plant in (False, True):
                G, E = S.simple_graph(n, mask, as_nx)
                desc = "GraphOrderingPrinciple(G(%d,%r),%s,plant=%s)[%s%s]" % (n, E, vname, plant, cls, S.rep_tag(as_nx))
                F = make(ctx, "gop", cls, desc, g.GraphOrderingPrinciple, G, plant=plant, **kw)
                if F is None:
                    continue
                judge_gop(ctx, cls, "gop", desc, F, n, E, vname, plant, ("gop", n, mask, vname, plant, cls, as_nx),
                          exact=F.number_of_variables() <= cap)


# ------------------------------------------------------------------ pebbling, stones
def peb_axioms(n, E):
    pred = {v: sorted(u for (u, w) in E if w == v) for v in range(1, n + 1)}
    out = []
    for v in range(1, n + 1):
        out.append([("x(%d)" % p, False) for p in pred[v]] + [("x(%d)" % v, True)])
        if not any(u == v for (u, _) in E):
            out.append([("x(%d)" % v, False)])
    return out


def case_peb(ctx, cls, n, masks, as_nx=False):
    tt.selfcheck()
    g = gens()
    for mask in masks:
        D, E = S.dag(n, mask, as_nx)
        S.count_rep(ctx, as_nx)
        desc = "PebblingFormula(DAG(%d,%r))[%s%s]" % (n, E, cls, S.rep_tag(as_nx))
        F = make(ctx, "peb", cls, desc, g.PebblingFormula, D)
        if F is None:
            continue
        if F.number_of_variables() != n:
            ctx.violation("peb:numvar", "%s has %d variables" % (desc, F.number_of_variables()))
            continue
        structural(ctx, "peb", desc, F, peb_axioms(n, E))
        key = ("peb", n, mask, cls)
        if n >= 1:
            contradiction(ctx, "peb", desc, F, key)
        else:
            S.check_models(ctx, "peb", desc, F, [[]], key, nontrivial=False)
        # the docstring lets the caller attach an enumeration of the vertices (`ordered_vertices`): whether the
        # variables follow it or not, the clauses must be the axioms of this DAG under one of the two namings
        if n >= 2 and as_nx in (False, "duck") and mask % 3 == 0:
            r = ctx.rng("c03-ordered", n, mask)
            for order in (list(range(n, 0, -1)), r.sample(range(1, n + 1), n), list(range(1, n + 1))):
                D2, _ = S.dag(n, mask, as_nx)
                try:
                    D2.ordered_vertices = list(order)
                except AttributeError:
                    break
                F2 = make(ctx, "peb", cls, desc + " ordered_vertices=%r" % order, g.PebblingFormula, D2)
                if F2 is None:
                    continue
                ctx.count("peb_with_ordered_vertices")
                got, other = named_clauses(F2)
                rank = {v: i for i, v in enumerate(order, start=1)}
                pred = {v: sorted(u for (u, w) in E if w == v) for v in range(1, n + 1)}
                sinks = [v for v in range(1, n + 1) if not any(u == v for (u, _) in E)]
                namings = []
                for name in (lambda v: "x(%d)" % v, lambda v: "x(%d)" % rank[v]):
                    ax = {frozenset([(name(p_), False) for p_ in pred[v]] + [(name(v), True)]) for v in range(1, n + 1)}
                    ax |= {frozenset([(name(v), False)]) for v in sinks}
                    namings.append(ax)
                if other or got not in namings:
                    ctx.violation("peb:axioms:ordered-vertices",
                                  "%s with D.ordered_vertices = %r: the clauses %s are the pebbling axioms neither with "
                                  "x(v) for vertex v nor with x(i) for the i-th listed vertex"
                                  % (desc, order, sorted(sorted(("" if sg else "~") + nm for nm, sg in c) for c in got)))
                contradiction(ctx, "peb", desc, F2, ("peb-ordered", n, mask, tuple(order), cls, S.rep_tag(as_nx)))


def stone_axioms(n, E, stones_of, nstones):
    """stones_of[v] = sorted list of stones allowed on vertex v."""
    pred = {v: sorted(u for (u, w) in E if w == v) for v in range(1, n + 1)}
    P = lambda v, j: "P_{%d,%d}" % (v, j)
    R = lambda j: "R_{%d}" % j
    out = []
    for v in range(1, n + 1):
        out.append([(P(v, j), True) for j in stones_of[v]])          # some stone on every vertex
    for v in range(1, n + 1):
        for j in stones_of[v]:
            for pattern in itertools.product(*[stones_of[p] for p in pred[v]]):
                cl = [(P(p, s), False) for p, s in zip(pred[v], pattern)] + [(P(v, j), False)]
                cl += [(R(s), False) for s in pattern] + [(R(j), True)]
                out.append(cl)            # tautologies (a predecessor stone equal to j) are dropped by structural()
        if not any(u == v for (u, _) in E):
            for j in stones_of[v]:
                out.append([(P(v, j), False), (R(j), False)])
    return out


def case_stone(ctx, cls, n, masks, smax, as_nx=False):
    tt.selfcheck()
    g = gens()
    cap = S.CAP[ctx.tier]
    for mask in masks:
        D, E = S.dag(n, mask, as_nx)
        S.count_rep(ctx, as_nx)
        for s in range(0, smax + 1):
            desc = "StoneFormula(DAG(%d,%r),%d)[%s%s]" % (n, E, s, cls, S.rep_tag(as_nx))
            F = make(ctx, "stone", cls, desc, g.StoneFormula, D, s)
            if F is None:
                continue
            if F.number_of_variables() != s + n * s:
                ctx.violation("stone:numvar", "%s has %d variables, expected %d" % (desc, F.number_of_variables(), s + n * s))
                continue
            stones_of = {v: list(range(1, s + 1)) for v in range(1, n + 1)}
            exact = F.number_of_variables() <= cap
            structural(ctx, "stone", desc, F, stone_axioms(n, E, stones_of, s), large=not exact)
            key = ("stone", n, mask, s, cls)
            if not exact:
                ctx.judged(key, sample={"family": "stone", "case": desc, "mode": "structural"})
            elif n >= 1:
                contradiction(ctx, "stone", desc, F, key)
            else:
                # no vertex: nothing is claimed; any colouring of the stones is a model
                ctx.judged(key, nontrivial=False)


def case_sparsestone(ctx, cls, n, masks, R, bmasks):
    tt.selfcheck()
    g = gens()
    cap = S.CAP[ctx.tier]
    for mask in masks:
        for bm in bmasks:
            rep = "duck" if (mask + bm) % 3 == 0 else False
            D, E = S.dag(n, mask, rep)
            B, BE = S.bipartite_graph(n, R, bm, rep)
            S.count_rep(ctx, rep)
            desc = "SparseStoneFormula(DAG(%d,%r),B(%d,%d,%r))[%s%s]" % (n, E, n, R, BE, cls, S.rep_tag(rep))
            F = make(ctx, "sparsestone", cls, desc, g.SparseStoneFormula, D, B)
            if F is None:
                continue
            if F.number_of_variables() != R + len(BE):
                ctx.violation("sparsestone:numvar", "%s has %d variables, expected %d" % (desc, F.number_of_variables(), R + len(BE)))
                continue
            if F.number_of_variables() > cap:
                continue
            stones_of = {v: sorted(j for (u, j) in BE if u == v) for v in range(1, n + 1)}
            structural(ctx, "sparsestone", desc, F, stone_axioms(n, E, stones_of, R))
            key = ("sparsestone", n, mask, R, bm, cls)
            if n >= 1:
                contradiction(ctx, "sparsestone", desc, F, key)
            else:
                ctx.judged(key, nontrivial=False)


# ------------------------------------------------------------------ CPLS
def cpls_axioms(a, b, c):
    lb, lc = (b - 1).bit_length(), (c - 1).bit_length()
    G = lambda i, xx, y: "G_%d(%d,%d)" % (i, xx, y)
    fbit = lambda i, xx, j: "(f_{%d}(%d))_{%d}" % (i, xx, j)
    ubit = lambda xx, j: "(u(%d))_{%d}" % (xx, j)

    def differs(namefn, value, nbits):       # clause literals saying "the bit string is not `value`"
        return [(namefn(j), not ((value >> j) & 1)) for j in range(nbits)]
    out = []
    for y in range(1, c + 1):
        out.append([(G(1, 1, y), False)])
    for i in range(1, a):
        for xx in range(1, b + 1):
            for x2 in range(1, b + 1):
                for y in range(1, c + 1):
                    out.append(differs(lambda j: fbit(i, xx, j), x2 - 1, lb) + [(G(i + 1, x2, y), False), (G(i, xx, y), True)])
    for xx in range(1, b + 1):
        for y in range(1, c + 1):
            out.append(differs(lambda j: ubit(xx, j), y - 1, lc) + [(G(a, xx, y), True)])
    return out


def case_cpls(ctx, cls, triples):
    tt.selfcheck()
    g = gens()
    cap = S.CAP[ctx.tier]
    for (a, b, c) in triples:
        desc = "CPLSFormula(%d,%d,%d)[%s]" % (a, b, c, cls)
        F = make(ctx, "cpls", cls, desc, g.CPLSFormula, a, b, c)
        if F is None:
            continue
        nv = a * b * c + a * b * (b - 1).bit_length() + b * (c - 1).bit_length()
        if F.number_of_variables() != nv:
            ctx.violation("cpls:numvar", "%s has %d variables, expected %d" % (desc, F.number_of_variables(), nv))
            continue
        exact = nv <= cap
        structural(ctx, "cpls", desc, F, cpls_axioms(a, b, c), large=not exact)
        key = ("cpls", a, b, c, cls)
        if exact:
            contradiction(ctx, "cpls", desc, F, key)
        else:
            ctx.judged(key, sample={"family": "cpls", "case": desc, "mode": "structural"})


# ------------------------------------------------------------------ Pitfall
import re
_COPY = re.compile(r"e\[(\d+)\]|[yzpa]_\{(\d+),")


def case_pitfall(ctx, cls, v, d, ny, nz, k, seeds, exact):
    tt.selfcheck()
    import random
    g = gens()
    for seed in seeds:
        random.seed(seed)
        desc = "PitfallFormula(%d,%d,%d,%d,%d)[%s] under random.seed(%d)" % (v, d, ny, nz, k, cls, seed)
        F = make(ctx, "pitfall", cls, desc, g.PitfallFormula, v, d, ny, nz, k)
        if F is None:
            continue
        if seed == seeds[0]:
            # the pipe and tail gadgets have no reference of their own here: at least they do not depend on the interpreter's -O flag
            S.same_in_optimized_interpreter(ctx, "pitfall", desc, "g.PitfallFormula(%d, %d, %d, %d, %d, formula_class=%s)" % (v, d, ny, nz, k, cls),
                                            seed, F)
        at = S.decode(ctx, "pitfall", desc, F)
        if at is None:
            continue
        edges = sorted({(t[1], t[2]) for t in at.get("e[#]_{#,#}", {})})
        nx_ = len(edges)
        nv = k * (nx_ + ny + nz + nx_ + nz + 3)
        if F.number_of_variables() != nv or len(edges) * 2 != v * d:
            ctx.violation("pitfall:numvar", "%s has %d variables / %d template edges; expected %d variables, %d edges"
                          % (desc, F.number_of_variables(), nx_, nv, v * d // 2))
            continue
        deg = {u: 0 for u in range(1, v + 1)}
        for a, b in edges:
            deg[a] += 1
            deg[b] += 1
        if any(x_ != d for x_ in deg.values()):
            ctx.violation("pitfall:template-not-regular", "%s: template graph degrees %r" % (desc, deg))
        # hard part: k copies of the Tseitin formula (odd charge on vertex 1), each clause guarded by all z_{j,.}
        ref_hard = set()
        for j in range(1, k + 1):
            guard = [("z_{%d,%d}" % (j, i), True) for i in range(1, nz + 1)]
            for u in range(1, v + 1):
                inc = [e for e in edges if u in e]
                want = 1 if u == 1 else 0
                for signs in itertools.product((True, False), repeat=len(inc)):
                    # clause excludes the assignment "edge true iff sign False"; it is excluded when its parity != want
                    if sum(1 for s_ in signs if not s_) % 2 != want:
                        ref_hard.add(frozenset([("e[%d]_{%d,%d}" % (j, a, b), s_) for (a, b), s_ in zip(inc, signs)] + guard))
        got, other = named_clauses(F)
        ctx.count("structural_comparisons")
        hard = {cl for cl in got if all(n.startswith("e[") or n.startswith("z_") for n, _ in cl)
                and any(n.startswith("z_") and s_ for n, s_ in cl)}
        if hard != ref_hard:
            miss, extra = ref_hard - hard, hard - ref_hard
            ex = next(iter(miss or extra))
            ctx.violation("pitfall:hard-part", "%s: hard part is not k guarded copies of the Tseitin template: %d missing, %d extra, e.g. %s"
                          % (desc, len(miss), len(extra), sorted(("" if s_ else "~") + n for n, s_ in ex)))
        # every clause lives in one copy, except the easy part which uses only y variables
        for cl in got:
            copies = set()
            for n, _ in cl:
                m = _COPY.match(n)
                copies.add(int(m.group(1) or m.group(2)) if m else None)
            if len(copies) > 1 and not all(n.startswith("y_") and not s_ for n, s_ in cl):
                ctx.violation("pitfall:gadget-locality", "%s: clause %s mixes copies" % (desc, sorted(n for n, _ in cl)))
                break
        easy = {cl for cl in got if all(n.startswith("y_") for n, _ in cl)}
        ref_easy = {frozenset(("y_{%d,%d}" % (j, i + t), False) for j in range(1, k + 1) for t in (0, 1))
                    for i in range(1, ny, 2)}
        if easy != ref_easy:
            ctx.violation("pitfall:easy-part", "%s: easy part differs from the documented Gamma clauses" % desc)
        key = ("pitfall", v, d, ny, nz, k, tuple(edges), cls)
        if exact:
            contradiction(ctx, "pitfall", desc, F, key)
        else:
            ctx.count("large_structural_cases")
            ctx.judged(key, sample={"family": "pitfall", "case": desc, "mode": "structural", "edges": edges})


# ------------------------------------------------------------------ Ramsey-type
def case_ram(ctx, cls, N):
    tt.selfcheck()
    g = gens()
    P = S.pairs(N)
    for s in range(1, 5):
        for k in range(1, 5):
            desc = "RamseyNumber(%d,%d,%d)[%s]" % (s, k, N, cls)
            F = make(ctx, "ram", cls, desc, g.RamseyNumber, s, k, N)
            if F is None:
                continue
            at = S.decode(ctx, "ram", desc, F)
            if at is None:
                continue
            e = at.get("e_{#,#}", {})
            if F.number_of_variables() != len(P) or set(e) != set(P):
                ctx.violation("ram:numvar", "%s has %d variables" % (desc, F.number_of_variables()))
                continue
            objs = []
            ssets = list(itertools.combinations(range(1, N + 1), s))
            ksets = list(itertools.combinations(range(1, N + 1), k))
            for mask in range(1 << len(P)):
                E = {pp for i, pp in enumerate(P) if (mask >> i) & 1}
                if any(all(pp not in E for pp in itertools.combinations(c, 2)) for c in ssets):
                    continue
                if any(all(pp in E for pp in itertools.combinations(c, 2)) for c in ksets):
                    continue
                objs.append([e[pp] for pp in E])
            S.check_models(ctx, "ram", desc, F, objs, ("ram", s, k, N, cls), nontrivial=N > 1)


def progressions(N, k):
    if k == 1:
        return [[i] for i in range(1, N + 1)]
    out = []
    d = 1
    while 1 + d * (k - 1) <= N:
        for i in range(1, N - d * (k - 1) + 1):
            out.append([i + d * t for t in range(k)])
        d += 1
    return out


def case_vdw(ctx, cls, N, ncol, lengths_list):
    tt.selfcheck()
    g = gens()
    cap = S.CAP[ctx.tier]
    for K in lengths_list:
        desc = "VanDerWaerden(%d,%s)[%s]" % (N, ",".join(map(str, K)), cls)
        nv = N if ncol == 2 else N * ncol
        if nv > cap:
            continue
        F = make(ctx, "vdw", cls, desc, g.VanDerWaerden, N, *K)
        if F is None:
            continue
        at = S.decode(ctx, "vdw", desc, F)
        if at is None:
            continue
        if F.number_of_variables() != nv:
            ctx.violation("vdw:numvar", "%s has %d variables, expected %d" % (desc, F.number_of_variables(), nv))
            continue
        aps = [progressions(N, k) for k in K]
        objs = []
        for col in itertools.product(range(ncol), repeat=N):
            if any(all(col[i - 1] == c for i in ap) for c in range(ncol) for ap in aps[c]):
                continue
            if ncol == 2:
                xs = at.get("x_{#}", {})
                objs.append([xs[(i,)] for i in range(1, N + 1) if col[i - 1] == 1])
            else:
                xs = at.get("x_{#,#}", {})
                objs.append([xs[(i, col[i - 1] + 1)] for i in range(1, N + 1)])
        S.check_models(ctx, "vdw", desc, F, objs, ("vdw", N, tuple(K), cls), nontrivial=N > 0)


def case_ptn(ctx, cls, Ns):
    tt.selfcheck()
    g = gens()
    cap = S.CAP[ctx.tier]
    for N in Ns:
        desc = "PythagoreanTriples(%d)[%s]" % (N, cls)
        F = make(ctx, "ptn", cls, desc, g.PythagoreanTriples, N)
        if F is None:
            continue
        triples = []
        for a in range(1, N + 1):
            for b in range(a + 1, N + 1):
                c2 = a * a + b * b
                c = math.isqrt(c2)
                if c > N:
                    break
                if c * c == c2:
                    triples.append((a, b, c))
        v = lambda i: "v(%d)" % i
        ref = []
        for t in triples:
            ref.append([(v(i), True) for i in t])
            ref.append([(v(i), False) for i in t])
        if F.number_of_variables() != N:
            ctx.violation("ptn:numvar", "%s has %d variables" % (desc, F.number_of_variables()))
            continue
        exact = N <= cap
        structural(ctx, "ptn", desc, F, ref, large=not exact)
        key = ("ptn", N, cls)
        if not exact:
            ctx.judged(key, sample={"family": "ptn", "case": desc, "triples": len(triples), "mode": "structural"})
            continue
        at = S.decode(ctx, "ptn", desc, F)
        if at is None:
            continue
        vs = at.get("v(#)", {})
        # colourings: only numbers that occur in a triple matter; enumerate them, the others are free
        objs_mask = tt.space(N)[0]
        full, masks = tt.space(N)
        acc = full
        for t in triples:
            m = [masks[vs[(i,)] - 1] for i in t]
            allt = m[0] & m[1] & m[2]
            allf = (full ^ m[0]) & (full ^ m[1]) & (full ^ m[2])
            acc &= full ^ (allt | allf)
        got = tt.models_of(F)
        ctx.count("exact_cases")
        ctx.count("satisfiable_cases" if got else "unsatisfiable_cases")
        if got != acc:
            ctx.violation("ptn:models", "%s: model set differs from the triple-free colourings" % desc,
                          difference=tt.first_difference(N, got, acc))
        ctx.judged(key, nontrivial=len(triples) > 0, sample={"family": "ptn", "case": desc, "triples": len(triples),
                                                            "colourings": tt.count(acc)})


# ------------------------------------------------------------------ large sizes: structural only
# ------------------------------------------------------------------ the same formulas asked on the command line
_GRAPHS_BY_DEGREE = {}


def regular_graphs(n, d):
    """All d-regular graphs on vertices 1..n (n <= 6)."""
    if (n, d) not in _GRAPHS_BY_DEGREE:
        prs = S.pairs(n)
        out = []
        for sub in itertools.combinations(prs, n * d // 2):
            deg = collections.Counter(v for e in sub for v in e)
            if all(deg[v] == d for v in range(1, n + 1)):
                out.append(sorted(sub))
        _GRAPHS_BY_DEGREE[n, d] = out
    return _GRAPHS_BY_DEGREE[n, d]


def axiom_set(reference):
    ref = set()
    for cl in reference:
        fs = frozenset(cl)
        if not any((nm, not sg) in fs for nm, sg in fs):
            ref.add(fs)
    return ref


OP_FLAGS = {"plain": [], "total": ["--total"], "smart": ["--smart"], "knuth2": ["--knuth2"], "knuth3": ["--knuth3"]}


def case_cli(ctx, tool, part):
    """cnfgen / pbgen asked for the documented contradictions: the formula object the tool builds has exactly the
    axioms of the request -- for `op N d` the axioms of the graph ordering principle (in the requested variant) of
    *some* d-regular graph on N vertices."""
    import importlib
    from cnfgen.clitools.graph_args import make_graph_from_spec
    cli = importlib.import_module("cnfgen.clitools." + tool).cli
    r = ctx.rng("c03-cli", tool, part)

    def run(argv, seed=None):
        full = [tool] + (["--seed", str(seed)] if seed is not None else []) + ["-q"] + argv
        st, val = ctx.call(cli, full, mode="formula")
        ctx.count("cli_runs")
        if st != "ok":
            ctx.violation("cli:%s:raises:%s" % (argv[0], type(val).__name__),
                          "`%s` ended in %r" % (" ".join(full), val))
            return None
        return val

    def where(flags, pos):
        return flags + pos if r.random() < 0.5 else pos + flags

    if part == "op":
        for vname, flags in OP_FLAGS.items():
            for plant in (False, True):
                pf = flags + (["--plant"] if plant else [])
                for N in (1, 2, 3, 4, 5):
                    desc = "`%s op %d %s`" % (tool, N, " ".join(pf))
                    F = run(["op"] + where(pf, [str(N)]))
                    if F is None:
                        continue
                    structural(ctx, "cli-op", desc, F, gop_axioms(N, S.pairs(N), vname, plant),
                               key=("cli-op", tool, N, vname, plant))
                for (N, d) in ((4, 2), (5, 2), (6, 3), (4, 3), (5, 4), (6, 2), (6, 4), (3, 2)):
                    seed = r.randrange(1 << 20)
                    desc = "`%s --seed %d op %d %d %s`" % (tool, seed, N, d, " ".join(pf))
                    F = run(["op"] + where(pf, [str(N), str(d)]), seed)
                    if F is None:
                        continue
                    got, other = named_clauses(F)
                    got = {fs for fs in got if not any((nm, not sg) in fs for nm, sg in fs)}
                    ctx.count("structural_comparisons")
                    ok = not other and any(got == axiom_set(gop_axioms(N, E, vname, plant)) for E in regular_graphs(N, d))
                    ctx.count("cli_op_regular_graphs_tried", len(regular_graphs(N, d)))
                    if not ok:
                        ctx.violation("cli-op:axioms:no-regular-graph-fits",
                                      "%s: the %d clauses are the %s%s ordering axioms of none of the %d %d-regular graphs "
                                      "on %d vertices" % (desc, len(got), vname, " planted" if plant else "",
                                                          len(regular_graphs(N, d)), d, N))
                    ctx.judged(("cli-op-nd", tool, N, d, vname, plant), sample={"command": desc, "mode": "structural"})
                for spec in (["complete", "4"], ["grid", "2", "3"], ["gnd", "6", "3"], ["gnm", "5", "6"], ["torus", "3"],
                             ["complete", "2", "2"]):
                    seed = r.randrange(1 << 20)
                    random.seed(seed)
                    G = make_graph_from_spec("simple", list(spec))
                    n, E = G.number_of_vertices(), sorted(tuple(sorted(e)) for e in G.edges())
                    desc = "`%s --seed %d op %s %s`" % (tool, seed, " ".join(spec), " ".join(pf))
                    F = run(["op"] + where(pf, list(spec)), seed)
                    if F is None:
                        continue
                    if spec[0] in ("gnd", "gnm"):
                        # the tool may draw another graph than the replay: any graph of the requested kind will do
                        got, other = named_clauses(F)
                        got = {fs for fs in got if not any((nm, not sg) in fs for nm, sg in fs)}
                        cands = regular_graphs(6, 3) if spec[0] == "gnd" else \
                            [sorted(c) for c in itertools.combinations(S.pairs(5), 6)]
                        if other or not any(got == axiom_set(gop_axioms(n, E2, vname, plant)) for E2 in [E] + cands):
                            ctx.violation("cli-op:axioms:no-graph-of-the-request-fits", "%s: the clauses are the %s ordering "
                                          "axioms of no graph the specification can produce" % (desc, vname))
                        ctx.judged(("cli-op-g", tool, tuple(spec), vname, plant), sample={"command": desc})
                    else:
                        structural(ctx, "cli-op", desc, F, gop_axioms(n, E, vname, plant),
                                   key=("cli-op-g", tool, tuple(spec), vname, plant))
    elif part == "dags":
        for spec in (["pyramid", "1"], ["pyramid", "2"], ["pyramid", "3"], ["tree", "2"], ["tree", "3"], ["path", "1"],
                     ["path", "5"], ["path", "0"]):
            D = make_graph_from_spec("dag", list(spec))
            n, E = D.number_of_vertices(), sorted(tuple(e) for e in D.edges())
            desc = "`%s peb %s`" % (tool, " ".join(spec))
            F = run(["peb"] + spec)
            if F is not None:
                structural(ctx, "cli-peb", desc, F, peb_axioms(n, E), key=("cli-peb", tool, tuple(spec)))
            for st_ in (1, 2, 3):
                if n * st_ > 12:
                    continue
                desc = "`%s stone %d %s`" % (tool, st_, " ".join(spec))
                F = run(["stone", str(st_)] + spec)
                if F is not None:
                    stones_of = {v: list(range(1, st_ + 1)) for v in range(1, n + 1)}
                    structural(ctx, "cli-stone", desc, F, stone_axioms(n, E, stones_of, st_),
                               key=("cli-stone", tool, tuple(spec), st_))
        for (a, b, c) in ((1, 1, 1), (2, 2, 2), (3, 2, 4), (2, 4, 2), (1, 2, 1)):
            desc = "`%s cpls %d %d %d`" % (tool, a, b, c)
            F = run(["cpls", str(a), str(b), str(c)])
            if F is not None:
                structural(ctx, "cli-cpls", desc, F, cpls_axioms(a, b, c), key=("cli-cpls", tool, a, b, c))
    elif part == "colourings":
        g = gens()
        K = S.formula_classes()["CNF" if tool == "cnfgen" else "OPB"]
        items = [(["ram", str(s_), str(k), str(N)], g.RamseyNumber, (s_, k, N))
                 for (s_, k, N) in ((2, 2, 3), (3, 3, 5), (2, 3, 4), (3, 2, 4), (3, 3, 6), (1, 3, 3), (4, 3, 5))]
        items += [(["vdw", str(N)] + [str(k) for k in ks], g.VanDerWaerden, (N,) + ks)
                  for (N, ks) in ((5, (2, 3)), (8, (3, 3)), (6, (3, 2)), (7, (2, 2, 3)), (9, (3, 3)), (4, (1, 3)), (6, (3, 3, 2, 2)))]
        items += [(["ptn", str(N)], g.PythagoreanTriples, (N,)) for N in (0, 4, 5, 13, 17, 25)]
        for argv, fn, a in items:
            desc = "`%s %s`" % (tool, " ".join(argv))
            F = run(argv)
            if F is None:
                continue
            st, ref = ctx.call(fn, *a, formula_class=K)
            if st != "ok":
                continue
            ctx.count("structural_comparisons")
            same = list(F.all_variable_labels()) == list(ref.all_variable_labels()) and \
                sorted(repr(sorted(c, key=repr) if isinstance(c, list) and c and not isinstance(c[-1], int) else c) for c in F) == \
                sorted(repr(sorted(c, key=repr) if isinstance(c, list) and c and not isinstance(c[-1], int) else c) for c in ref)
            if not same:
                ctx.violation("cli-%s:axioms:differ-from-the-library-call" % argv[0],
                              "%s: variables or constraints differ from those of %s%r" % (desc, fn.__name__, a))
            ctx.judged(("cli-col", tool, tuple(argv)), sample={"command": desc, "mode": "against the library call"})
            if F.number_of_variables() != ref.number_of_variables():
                ctx.violation("cli-%s:numvar" % argv[0], "%s has %d variables, the formula of the library call %d"
                              % (desc, F.number_of_variables(), ref.number_of_variables()))


def case_after_interruption(ctx, cls, rseed, count):
    """A family call is interrupted half-way (KeyboardInterrupt between two lines of the library, delivered through the
    trace hook), the session catches it and goes on: the formulas built afterwards must be the documented ones."""
    from .C05 import _InterruptAt
    from cnfgen.graphs import dag_pyramid
    g = gens()
    K = S.formula_classes()[cls]
    r = ctx.rng("c03interrupted", cls, rseed)
    victims = [("PythagoreanTriples(300)", lambda: g.PythagoreanTriples(300, formula_class=K)),
               ("PythagoreanTriples(60)", lambda: g.PythagoreanTriples(60, formula_class=K)),
               ("VanDerWaerden(30,3,3)", lambda: g.VanDerWaerden(30, 3, 3, formula_class=K)),
               ("RamseyNumber(3,3,7)", lambda: g.RamseyNumber(3, 3, 7, formula_class=K)),
               ("OrderingPrinciple(7)", lambda: g.OrderingPrinciple(7, formula_class=K)),
               ("PebblingFormula(pyramid 4)", lambda: g.PebblingFormula(dag_pyramid(4), formula_class=K)),
               ("StoneFormula(pyramid 2, 3)", lambda: g.StoneFormula(dag_pyramid(2), 3, formula_class=K)),
               ("CPLSFormula(3,4,4)", lambda: g.CPLSFormula(3, 4, 4, formula_class=K))]
    for it in range(count):
        # no rehearsal of the same call (it would leave behind whatever the call leaves behind): the line to stop at is
        # drawn log-uniformly, and a call that ends before it is simply not interrupted; sizes grow from round to round
        size = 200 + 41 * it + r.randint(0, 30)
        vname, fn = r.choice(victims + [("PythagoreanTriples(%d)" % size, lambda size=size: g.PythagoreanTriples(size, formula_class=K)),
                                        ("VanDerWaerden(%d,3,4)" % (20 + it), lambda it=it: g.VanDerWaerden(20 + it, 3, 4, formula_class=K))] * 2)
        fired = False
        for attempt in range(3):
            k = int(2 ** r.uniform(1, 17 - 3 * attempt))
            try:
                with _InterruptAt(k):
                    fn()
            except KeyboardInterrupt:
                fired = True
                break
            except Exception:           # noqa: BLE001
                break
        if not fired:
            ctx.count("family_calls_that_ended_before_the_interruption")
            continue
        ctx.count("family_calls_interrupted")
        same = {"Pyth": "ptn", "VanD": "vdw", "Rams": "ram", "Orde": "op", "CPLS": "cpls"}.get(vname[:4])
        which = same if same and r.random() < 0.7 else r.choice(["ptn", "ptn", "vdw", "op", "ram", "cpls"])
        ctx.count("checks_after_an_interrupted_family_call")
        if which == "ptn":
            case_ptn(ctx, cls, sorted(r.sample(range(3, 40), 3)) + [r.choice((60, 100, 150)), r.choice((200, 300, 320))])
        elif which == "vdw":
            case_vdw(ctx, cls, r.randint(4, 8), 2, [[3, 3], [2, 3], [3, 4]])
        elif which == "op":
            case_op(ctx, cls, r.randint(2, 4))
        elif which == "ram":
            case_ram(ctx, cls, r.randint(3, 5))
        else:
            case_cpls(ctx, cls, [(2, 2, 2), (3, 2, 4)])


def case_large(ctx, cls):
    g = gens()
    # ordering principle 12, all variants
    N = 12
    E = S.pairs(N)
    for vname, kw in VARIANTS:
        for plant in (False, True):
            desc = "OrderingPrinciple(%d,%s,plant=%s)[%s]" % (N, vname, plant, cls)
            F = make(ctx, "op", cls, desc, g.OrderingPrinciple, N, plant=plant, **kw)
            if F is not None:
                judge_gop(ctx, cls, "op", desc, F, N, E, vname, plant, ("op", N, vname, plant, cls), exact=False)
    import cnfgen.graphs as cg
    for h in (4, 8, 12):
        D = cg.dag_pyramid(h)
        n = D.number_of_vertices()
        E = [tuple(e) for e in D.edges()]
        desc = "PebblingFormula(pyramid %d)[%s]" % (h, cls)
        F = make(ctx, "peb", cls, desc, g.PebblingFormula, D)
        if F is not None:
            structural(ctx, "peb", desc, F, peb_axioms(n, E), key=("peb-pyramid", h, cls), large=True)
        if h == 4:
            for s in (3, 4):
                desc = "StoneFormula(pyramid %d,%d)[%s]" % (h, s, cls)
                F = make(ctx, "stone", cls, desc, g.StoneFormula, D, s)
                if F is not None:
                    structural(ctx, "stone", desc, F, stone_axioms(n, E, {v: list(range(1, s + 1)) for v in range(1, n + 1)}, s),
                               key=("stone-pyramid", h, s, cls), large=True)
    for (a, b, c) in ((4, 4, 4), (3, 8, 2), (2, 2, 8)):
        desc = "CPLSFormula(%d,%d,%d)[%s]" % (a, b, c, cls)
        F = make(ctx, "cpls", cls, desc, g.CPLSFormula, a, b, c)
        if F is not None:
            structural(ctx, "cpls", desc, F, cpls_axioms(a, b, c), key=("cpls", a, b, c, cls), large=True)
    # Pythagorean triples: every clause pair against an independent enumeration, also where the legs are close
    # to the hypotenuse (119,120,169), (696,697,985) ... and at sizes the documentation advertises
    big = [60, 120, 169, 170, 200, 338, 339, 400, 507, 565, 700, 985, 1000] if ctx.tier == "quick" else \
        list(range(23, 420)) + [507, 508, 565, 700, 985, 986, 1000, 1394, 2000, 3000]
    case_ptn(ctx, cls, big)


# ------------------------------------------------------------------ workload
def chunks(seq, k):
    seq = list(seq)
    return [seq[i:i + k] for i in range(0, len(seq), k)]


def case_op_big(ctx, cls, N, vname, plant):
    """Ordering principle on more than 256 elements (millions of clauses): a handful of total orders, evaluated in one
    pass over the clauses.  Without planting every total order falsifies the formula; with it exactly the orders
    whose least element is the last one satisfy it."""
    from ..refmodels.names import eval_many
    g = gens()
    r = ctx.rng("c03opbig", cls, N, vname, plant)
    kw = dict(VARIANTS)[vname]
    desc = "OrderingPrinciple(%d,%s,plant=%s)[%s]" % (N, vname, plant, cls)
    F = make(ctx, "op", cls, desc, g.OrderingPrinciple, N, plant=plant, **kw)
    if F is None:
        return
    at = S.decode(ctx, "op", desc, F)
    if at is None:
        return
    xs = at.get("x_{#,#}", {})
    want = N * (N - 1) // 2 if kw["total"] or kw["smart"] else N * (N - 1)
    if len(xs) != want or F.number_of_variables() != want:
        ctx.violation("op:numvar", "%s has %d variables, expected %d" % (desc, F.number_of_variables(), want))
        return
    perms, exp = [], []
    for i in range(10):
        perm = list(range(1, N + 1))
        if i >= 2:
            r.shuffle(perm)
        if i % 2 == 0:
            perm.remove(N)
            perm.insert(0, N)                   # the last element is the least one
        if i == 9:
            perm.remove(N)
            perm.insert(1, N)                   # ... is the second least
        perms.append(perm)
        exp.append(bool(plant) and perm[0] == N)
    pool = []
    for perm in perms:
        pos = {v: j for j, v in enumerate(perm)}
        pool.append({var for (a, b), var in xs.items() if pos[a] < pos[b]})
    got = eval_many(F, pool)
    ctx.count("sampled_cases")
    ctx.count("sampled_assignments", len(pool))
    ctx.count("sampled_true_references", sum(exp))
    ctx.count("sampled_false_references", len(exp) - sum(exp))
    for perm, e, o in zip(perms, exp, got):
        if e != o:
            ctx.violation("op:sampled:%s" % ("satisfied-by-non-object" if o else "object-not-a-model"),
                          "%s: the total order starting %r %s the formula, expected the opposite"
                          % (desc, perm[:4], "satisfies" if o else "falsifies"))
            break
    ctx.judged(("op-big", N, vname, plant, cls), sample={"family": "op", "case": desc, "clauses": len(F), "orders": len(pool)})


def workload(tier, seed):
    quick = tier == "quick"
    # the expensive case first, so that it runs alongside everything else
    yield "op_big", {"cls": "CNF", "N": 257, "vname": "smart", "plant": True}
    if not quick:
        yield "op_big", {"cls": "CNF", "N": 258, "vname": "smart", "plant": False}
        yield "op_big", {"cls": "OPB", "N": 257, "vname": "smart", "plant": True}
        yield "op_big", {"cls": "CNF", "N": 300, "vname": "smart", "plant": True}
    for tool in ("cnfgen", "pbgen"):
        for part in ("op", "dags", "colourings"):
            yield "cli", {"tool": tool, "part": part}
    for cls in ("CNF", "OPB"):
        for N in range(0, 6 if quick else 7):
            yield "op", {"cls": cls, "N": N}
        for n in range(0, 5 if quick else 6):
            masks = list(range(1 << (n * (n - 1) // 2)))
            if n == 5:
                import random as _r
                masks = sorted(_r.Random("c03gop-%d" % seed).sample(masks, 200))
            for ch in chunks(masks, 4):
                yield "gop", {"cls": cls, "n": n, "masks": ch, "as_nx": False}
            if n <= 3:
                yield "gop", {"cls": cls, "n": n, "masks": masks, "as_nx": True}
            if n <= 4:
                for ch in chunks(masks, 8):
                    yield "gop", {"cls": cls, "n": n, "masks": ch, "as_nx": "duck"}
        for n in range(0, 6 if quick else 7):
            masks = list(range(1 << (n * (n - 1) // 2)))
            for ch in chunks(masks, 64 if n < 6 else 1024):
                yield "peb", {"cls": cls, "n": n, "masks": ch}
                if n <= 4:
                    yield "peb", {"cls": cls, "n": n, "masks": ch, "as_nx": "duck"}
        for n in range(0, 5):
            masks = list(range(1 << (n * (n - 1) // 2)))
            for ch in chunks(masks, 8):
                yield "stone", {"cls": cls, "n": n, "masks": ch, "smax": 3 if quick else 4}
                if n == 3 or (n == 4 and not quick):
                    yield "stone", {"cls": cls, "n": n, "masks": ch, "smax": 2, "as_nx": "duck"}
        import random
        r = random.Random("c03-%d" % seed)
        for n in range(1, 5):
            masks = list(range(1 << (n * (n - 1) // 2)))
            for R in (1, 2):
                bmasks = list(range(1 << (n * R)))
                if quick and len(masks) * len(bmasks) > 600:
                    masks_ = sorted(r.sample(masks, min(12, len(masks))))
                    bm_ = sorted(r.sample(bmasks, min(40, len(bmasks))))
                else:
                    masks_, bm_ = masks, bmasks
                for ch in chunks(masks_, 4):
                    yield "sparsestone", {"cls": cls, "n": n, "masks": ch, "R": R, "bmasks": bm_}
        trip = [(a, b, c) for a in range(1, 4) for b in (1, 2, 4) for c in (1, 2, 4)]
        for ch in chunks(trip, 3):
            yield "cpls", {"cls": cls, "triples": ch}
        for N in range(0, 7 if not quick else 6):
            yield "ram", {"cls": cls, "N": N}
        for N in range(0, 10 if quick else 15):
            lens2 = [[a, b] for a in range(1, 5) for b in range(1, 5)]
            yield "vdw", {"cls": cls, "N": N, "ncol": 2, "lengths_list": lens2}
            if N <= 6:
                lens3 = [[a, b, c] for a in range(1, 4) for b in range(1, 4) for c in range(1, 4)]
                for ch in chunks(lens3, 9):
                    yield "vdw", {"cls": cls, "N": N, "ncol": 3, "lengths_list": ch}
        yield "ptn", {"cls": cls, "Ns": list(range(0, 19))}
        for i in range(2 if quick else 24):
            yield "after_interruption", {"cls": cls, "rseed": seed * 100 + i, "count": 10}
        if not quick:
            yield "ptn", {"cls": cls, "Ns": [20, 21, 22]}
        yield "large", {"cls": cls}
        for i in range(1 if quick else 12):
            yield "sampled", {"cls": cls, "rseed": seed * 100 + i}
            yield "history", {"cls": cls, "rseed": seed * 100 + i}
        seeds = [seed * 100 + i for i in range(3 if quick else 20)]
        for (v, d) in ((2, 1), (4, 1)):
            for ny in (2, 3):
                for nz in (2, 3):
                    nvars = 2 * ((v * d // 2) * 2 + ny + 2 * nz + 3)
                    exact = nvars <= (22 if quick else 26)
                    yield "pitfall", {"cls": cls, "v": v, "d": d, "ny": ny, "nz": nz, "k": 2,
                                      "seeds": seeds[:2] if exact else seeds, "exact": exact}
        for (v, d) in ((3, 2), (4, 3), (6, 3)):
            yield "pitfall", {"cls": cls, "v": v, "d": d, "ny": 4, "nz": 3, "k": 4, "seeds": seeds, "exact": False}


# ------------------------------------------------------------------ beyond the cap: sampled assignments
def case_sampled(ctx, cls, rseed):
    """Ramsey-type formulas and orderings at sizes where the truth table is out of reach: the formula is
    evaluated on random / constructed assignments against a direct predicate."""
    from ..refmodels.names import eval_formula
    g = gens()
    r = ctx.rng("c03sampled", cls, rseed)

    def compare(fam, desc, F, pool, pred, key):
        nt = nf = 0
        for t in pool:
            exp, got = pred(t), eval_formula(F, t)
            ctx.count("sampled_assignments")
            nt, nf = nt + bool(exp), nf + (not exp)
            if exp != got:
                ctx.violation("%s:sampled:%s" % (fam, "satisfied-by-non-object" if got else "object-not-a-model"),
                              "%s: an assignment that %s the documented condition %s the formula; true variables %s"
                              % (desc, "meets" if exp else "violates", "satisfies" if got else "falsifies",
                                 sorted(S.name_of(F, v) for v in t)[:30]))
                break
        ctx.count("sampled_cases")
        ctx.count("sampled_true_references", nt)
        ctx.count("sampled_false_references", nf)
        ctx.judged(key, sample={"family": fam, "case": desc, "mode": "sampled", "assignments_true": nt, "assignments_false": nf})
    # van der Waerden, two colours: random colourings and locally repaired ones
    for (N, k1, k2) in ((20, 3, 4), (30, 4, 4), (17, 3, 5), (12, 2, 6)):
        desc = "VanDerWaerden(%d,%d,%d)[%s]" % (N, k1, k2, cls)
        F = make(ctx, "vdw", cls, desc, g.VanDerWaerden, N, k1, k2)
        if F is None:
            continue
        at = S.decode(ctx, "vdw", desc, F)
        if at is None:
            continue
        xs = at.get("x_{#}", {})
        aps = [progressions(N, k1), progressions(N, k2)]

        def bad_aps(col):
            return [(c, ap) for c in (0, 1) for ap in aps[c] if all(col[i - 1] == c for i in ap)]
        pool = []
        for _ in range(30):
            col = [r.randrange(2) for _ in range(N)]
            pool.append(list(col))
            for _ in range(200):                  # min-conflicts repair towards an avoiding colouring
                b = bad_aps(col)
                if not b:
                    break
                c, ap = r.choice(b)
                col[r.choice(ap) - 1] ^= 1
            pool.append(list(col))
        pred = lambda t: not bad_aps([1 if xs[(i,)] in t else 0 for i in range(1, N + 1)])
        compare("vdw", desc, F, [{xs[(i,)] for i in range(1, N + 1) if col[i - 1]} for col in pool], pred,
                ("vdw-large", N, k1, k2, cls, rseed))
    # van der Waerden, three colours
    for (N, K) in ((14, (3, 3, 3)), (10, (2, 3, 4))):
        desc = "VanDerWaerden(%d,%s)[%s]" % (N, ",".join(map(str, K)), cls)
        F = make(ctx, "vdw", cls, desc, g.VanDerWaerden, N, *K)
        if F is None:
            continue
        at = S.decode(ctx, "vdw", desc, F)
        if at is None:
            continue
        xs = at.get("x_{#,#}", {})
        aps = [progressions(N, k) for k in K]
        pool = []
        for _ in range(40):
            col = [r.randrange(3) for _ in range(N)]
            for _ in range(150):
                b = [(c, ap) for c in range(3) for ap in aps[c] if all(col[i - 1] == c for i in ap)]
                if not b:
                    break
                c, ap = r.choice(b)
                col[r.choice(ap) - 1] = r.choice([x for x in range(3) if x != c])
            t = {xs[(i, col[i - 1] + 1)] for i in range(1, N + 1)}
            pool.append(t)
            pool.append(t ^ {r.choice(list(xs.values()))})          # a number with 0 or 2 colours

        def pred3(t, xs=xs, N=N, aps=aps):
            col = []
            for i in range(1, N + 1):
                cs = [c for c in range(3) if xs[(i, c + 1)] in t]
                if len(cs) != 1:
                    return False
                col.append(cs[0])
            return not any(all(col[i - 1] == c for i in ap) for c in range(3) for ap in aps[c])
        compare("vdw", desc, F, pool, pred3, ("vdw3-large", N, K, cls, rseed))
    # Ramsey numbers: random graphs and repaired ones
    for (s, k, N) in ((3, 3, 8), (3, 4, 8), (4, 4, 10), (2, 5, 7)):
        desc = "RamseyNumber(%d,%d,%d)[%s]" % (s, k, N, cls)
        F = make(ctx, "ram", cls, desc, g.RamseyNumber, s, k, N)
        if F is None:
            continue
        at = S.decode(ctx, "ram", desc, F)
        if at is None:
            continue
        e = at.get("e_{#,#}", {})
        P = S.pairs(N)
        ssets = list(itertools.combinations(range(1, N + 1), s))
        ksets = list(itertools.combinations(range(1, N + 1), k))

        def conflicts(Eset):
            out = [("i", c) for c in ssets if all(pp not in Eset for pp in itertools.combinations(c, 2))]
            out += [("c", c) for c in ksets if all(pp in Eset for pp in itertools.combinations(c, 2))]
            return out
        pool = []
        for _ in range(12):
            Eset = {pp for pp in P if r.random() < 0.5}
            pool.append(set(Eset))
            for _ in range(60):
                b = conflicts(Eset)
                if not b:
                    break
                kind, c = r.choice(b)
                pr = list(itertools.combinations(c, 2))
                if not pr:
                    break
                pp = r.choice(pr)
                if kind == "i":
                    Eset.add(pp)
                else:
                    Eset.discard(pp)
            pool.append(set(Eset))
        pred = lambda t, e=e, P=P: not conflicts({pp for pp in P if e[pp] in t})
        compare("ram", desc, F, [{e[pp] for pp in Es} for Es in pool], pred, ("ram-large", s, k, N, cls, rseed))
    # ordering principles at 8-10 elements: total orders (every one falsifies the unplanted formula; the planted
    # one is satisfied exactly by the orders whose only minimum is the last element's allowed position)
    import cnfgen.graphs as cg
    for N in (8, 10):
        E = [e for e in S.pairs(N) if r.random() < 0.5]
        G = cg.Graph(N)
        for ed in E:
            G.add_edge(*ed)
        adj = {u: set() for u in range(1, N + 1)}
        for u, v in E:
            adj[u].add(v)
            adj[v].add(u)
        for vname, kw in VARIANTS:
            for plant in (False, True):
                desc = "GraphOrderingPrinciple(random graph %d vertices %d edges,%s,plant=%s)[%s]" % (N, len(E), vname, plant, cls)
                F = make(ctx, "gop", cls, desc, g.GraphOrderingPrinciple, G, plant=plant, **kw)
                if F is None:
                    continue
                at = S.decode(ctx, "gop", desc, F)
                if at is None:
                    continue
                xs = at.get("x_{#,#}", {})
                pool, exp = [], {}
                for i in range(30):
                    perm = list(range(1, N + 1))
                    r.shuffle(perm)
                    if plant and i % 2 == 0:
                        # a BFS-like order from vertex N: every other vertex gets a smaller neighbour when the graph is connected
                        seen, order, frontier = {N}, [N], [N]
                        while frontier:
                            u = frontier.pop(r.randrange(len(frontier)))
                            for w in sorted(adj[u]):
                                if w not in seen:
                                    seen.add(w)
                                    order.append(w)
                                    frontier.append(w)
                        perm = order + [v for v in perm if v not in seen]
                    pos = {v: j for j, v in enumerate(perm)}
                    t = frozenset(var for (a, b), var in xs.items() if pos[a] < pos[b])
                    ok = all(any(pos[u] < pos[v] for u in adj[v]) for v in range(1, N + 1) if not (plant and v == N))
                    pool.append(set(t))
                    exp[t] = ok
                compare("gop", desc, F, pool, lambda t, exp=exp: exp[frozenset(t)], ("gop-large", N, tuple(E), vname, plant, cls, rseed))


def case_history(ctx, cls, rseed):
    """Graph ordering principle on a Graph object that is edited (and grown by two vertices at once) between calls."""
    K = S.formula_classes()[cls]
    g = gens()
    r = ctx.rng("c03hist", cls, rseed)
    for vname, kw in VARIANTS:
        for plant in (False, True):
            S.graph_history_check(ctx, "gop", "GraphOrderingPrinciple(%s,plant=%s)[%s]" % (vname, plant, cls),
                                  lambda G: g.GraphOrderingPrinciple(G, plant=plant, formula_class=K, **kw), r, n=r.randint(3, 5))

"""C16 -- graph objects stay consistent under any sequence of updates.

History + executable model: every operation of a generated history is applied
to the real object and to a `set` shadow model; after every operation all
public views are compared with the model.  In addition an icontract class
invariant (views agree with each other) is evaluated by icontract after every
public method call of the three graph classes.
"""
import itertools

PYTHON_O_STRIDE = {"quick": 4, "thorough": 2}      # every n-th case is repeated in an interpreter started with -O
RULE = ("histories of add_edge / add_edges_from / remove_edge / update_vertex_number (operations a class "
        "does not offer are not generated) with vertex arguments from -1..n+2 on Graph, DirectedGraph, "
        "BipartiteGraph, CompleteBipartiteGraph and the named constructions; all histories of length <= 2 "
        "(quick) / <= 3 (thorough) over n <= 3 enumerated, seeded random histories of 1..60 operations from "
        "initial sizes 0..6; all views compared with the shadow model after every operation; distinct = "
        "(class, start, operation sequence); trivial = history without a successful insertion.")
ASSUMPTIONS = ["networkx is trusted for the to_networkx/from_networkx comparison",
               "a refused insertion is expected to raise an exception (any type) on the three mutable classes"]
REQUIRED = ["ops_applied", "view_comparisons", "invariant_evaluations", "refusals_observed",
            "networkx_round_trips", "removals_effective", "vertex_growths_effective", "dag_flag_flips", "old_view_rereads", "networkx_views_along_history"]
EXHAUSTIVE_SUBSPACES = {
    "quick": ["all histories of length <= 2 over the operation alphabet with vertex arguments 0..n+1 for n = 2,3 (Graph, DirectedGraph), (L,R) in {(2,2),(1,3)} (BipartiteGraph)"],
    "thorough": ["all histories of length <= 3 over the same alphabets"]}

_installed = {"done": False, "evals": 0, "failures": []}


# ------------------------------------------------------------------ invariants (icontract)
def _views_graph(self):
    n = self.number_of_vertices()
    es = list(self.edges())
    adj = {u: list(self.neighbors(u)) for u in range(1, n + 1)}
    ok = (len(es) == self.number_of_edges() == len(self.edges())
          and es == sorted(set(es)) and all(u < v for u, v in es)
          and all(adj[u] == sorted(set(adj[u])) for u in adj)
          and all(self.degree(u) == len(adj[u]) for u in adj)
          and sorted((u, v) for u in adj for v in adj[u] if u < v) == es
          and all((u in adj[v]) for u in adj for v in adj[u])
          and all(self.has_edge(u, v) == (v in adj[u]) for u in adj for v in adj))
    return ok


def _views_digraph(self):
    n = self.number_of_vertices()
    es = list(self.edges())
    es2 = list(self.edges_ordered_by_successors())
    succ = {u: list(self.successors(u)) for u in range(1, n + 1)}
    pred = {u: list(self.predecessors(u)) for u in range(1, n + 1)}
    ok = (len(es) == self.number_of_edges() and es == sorted(set(es))
          and es2 == sorted(set(es), key=lambda e: (e[1], e[0]))
          and all(succ[u] == sorted(set(succ[u])) and pred[u] == sorted(set(pred[u])) for u in succ)
          and sorted((u, v) for u in succ for v in succ[u]) == es
          and sorted((u, v) for v in pred for u in pred[v]) == es
          and all(self.out_degree(u) == len(succ[u]) and self.in_degree(u) == len(pred[u]) for u in succ)
          and self.is_dag() == all(u < v for u, v in es))
    return ok


def _views_bipartite(self):
    L, R = self.left_order(), self.right_order()
    es = list(self.edges())
    rn = {u: list(self.right_neighbors(u)) for u in range(1, L + 1)}
    ln = {v: list(self.left_neighbors(v)) for v in range(1, R + 1)}
    ok = (len(es) == self.number_of_edges() and es == sorted(set(es))
          and all(rn[u] == sorted(set(rn[u])) for u in rn) and all(ln[v] == sorted(set(ln[v])) for v in ln)
          and sorted((u, v) for u in rn for v in rn[u]) == es
          and sorted((u, v) for v in ln for u in ln[v]) == es
          and all(self.right_degree(u) == len(rn[u]) for u in rn)
          and all(self.left_degree(v) == len(ln[v]) for v in ln)
          and all(self.has_edge(u, v) == (v in rn[u]) for u in rn for v in ln))
    return ok


class _Busy:
    depth = 0


def _make_inv(fn, name):
    def views_agree(self):
        # the invariant itself calls public methods: do not recurse
        if _Busy.depth:
            return True
        _Busy.depth += 1
        try:
            _installed["evals"] += 1
            try:
                ok = fn(self)
            except Exception as e:   # noqa: BLE001
                ok = False
                name_ = "%s: view raised %r" % (name, e)
                _installed["failures"].append(name_)
                return True
            if not ok:
                _installed["failures"].append("%s: views disagree" % name)
            return True              # record, never raise through the code under test
        finally:
            _Busy.depth -= 1
    return views_agree


class InvariantBroken(Exception):
    pass


def install_invariants():
    if _installed["done"]:
        return
    import icontract
    import cnfgen.graphs as g
    icontract.invariant(_make_inv(_views_graph, "Graph"), error=InvariantBroken)(g.Graph)
    icontract.invariant(_make_inv(_views_digraph, "DirectedGraph"), error=InvariantBroken)(g.DirectedGraph)
    icontract.invariant(_make_inv(_views_bipartite, "BipartiteGraph"), error=InvariantBroken)(g.BipartiteGraph)
    _installed["done"] = True


# ------------------------------------------------------------------ shadow models
class Shadow:
    def __init__(self, kind, n=0, L=0, R=0):
        self.kind, self.n, self.L, self.R = kind, n, L, R
        self.E = set()

    def valid(self, u, v):
        if not (isinstance(u, int) and isinstance(v, int)):
            return False
        if self.kind == "simple":
            return 1 <= u <= self.n and 1 <= v <= self.n and u != v
        if self.kind == "digraph":
            return 1 <= u <= self.n and 1 <= v <= self.n
        return 1 <= u <= self.L and 1 <= v <= self.R

    def norm(self, u, v):
        return (min(u, v), max(u, v)) if self.kind == "simple" else (u, v)

    def has(self, u, v):
        if self.kind == "complete-bipartite":
            return self.valid(u, v)
        return self.valid(u, v) and self.norm(u, v) in self.E

    def edges(self):
        if self.kind == "complete-bipartite":
            return [(u, v) for u in range(1, self.L + 1) for v in range(1, self.R + 1)]
        return sorted(self.E)


def make(kind, start):
    import cnfgen.graphs as g
    if kind == "simple":
        ctor, n = start
        if ctor == "Graph":
            return g.Graph(n), Shadow("simple", n)
        if ctor == "complete":
            s = Shadow("simple", n)
            s.E = {(u, v) for u in range(1, n + 1) for v in range(u + 1, n + 1)}
            return g.Graph.complete_graph(n), s
        if ctor == "star":
            s = Shadow("simple", n + 1)
            s.E = {(u, n + 1) for u in range(1, n + 1)}
            return g.Graph.star_graph(n), s
        if ctor == "empty":
            return g.Graph.empty_graph(n), Shadow("simple", n)
        return g.Graph.null_graph(), Shadow("simple", 0)
    if kind == "digraph":
        return g.DirectedGraph(start[1]), Shadow("digraph", start[1])
    if kind == "bipartite":
        return g.BipartiteGraph(start[1], start[2]), Shadow("bipartite", L=start[1], R=start[2])
    return g.CompleteBipartiteGraph(start[1], start[2]), Shadow("complete-bipartite", L=start[1], R=start[2])


def compare(ctx, G, S, where):
    """All public views against the model.  Returns False at the first mismatch."""
    # the harness's own queries do not need the class invariant re-evaluated around each of them
    _Busy.depth += 1
    try:
        return _compare(ctx, G, S, where)
    finally:
        _Busy.depth -= 1


def _compare(ctx, G, S, where):
    ctx.count("view_comparisons")
    kind = S.kind
    mech = "%s:" % kind

    def bad(what, got, exp):
        ctx.violation(mech + what, "%s: %s is %r, the model says %r" % (where, what, got, exp))
        return False
    exp_edges = S.edges()
    if kind in ("simple", "digraph"):
        if G.number_of_vertices() != S.n or list(G.vertices()) != list(range(1, S.n + 1)) or len(G) != S.n:
            return bad("vertex-count", G.number_of_vertices(), S.n)
        lo, hi = -1, S.n + 2
    else:
        if (G.left_order(), G.right_order()) != (S.L, S.R) or G.number_of_vertices() != S.L + S.R:
            return bad("vertex-count", (G.left_order(), G.right_order()), (S.L, S.R))
        lo, hi = -1, max(S.L, S.R) + 2
    if G.number_of_edges() != len(exp_edges):
        return bad("edge-count", G.number_of_edges(), len(exp_edges))
    got_edges = [tuple(e) for e in G.edges()]
    if got_edges != exp_edges:
        return bad("edge-listing", got_edges, exp_edges)
    if len(G.edges()) != len(exp_edges):
        return bad("edge-listing-length", len(G.edges()), len(exp_edges))
    view = G.edges()
    for u in range(lo, hi + 1):
        for v in range(lo, hi + 1):
            e = S.has(u, v)
            if bool(G.has_edge(u, v)) != e:
                return bad("membership", (u, v, G.has_edge(u, v)), e)
            if ((u, v) in view) != e:
                return bad("edge-view-membership", (u, v), e)
    if kind == "simple":
        for u in range(1, S.n + 1):
            exp = sorted([b if a == u else a for a, b in S.E if u in (a, b)])
            got = list(G.neighbors(u))
            if got != exp:
                return bad("neighbours", (u, got), exp)
            if G.degree(u) != len(exp):
                return bad("degree", (u, G.degree(u)), len(exp))
        if G.is_dag() or G.is_directed():
            return bad("type-flags", (G.is_dag(), G.is_directed()), (False, False))
    elif kind == "digraph":
        for u in range(1, S.n + 1):
            es = sorted(b for a, b in S.E if a == u)
            ep = sorted(a for a, b in S.E if b == u)
            if list(G.successors(u)) != es:
                return bad("successors", (u, list(G.successors(u))), es)
            if list(G.predecessors(u)) != ep:
                return bad("predecessors", (u, list(G.predecessors(u))), ep)
            if (G.out_degree(u), G.in_degree(u)) != (len(es), len(ep)):
                return bad("degree", (u, G.out_degree(u), G.in_degree(u)), (len(es), len(ep)))
        by_succ = [tuple(e) for e in G.edges_ordered_by_successors()]
        if by_succ != sorted(S.E, key=lambda e: (e[1], e[0])):
            return bad("edge-listing-by-successor", by_succ, sorted(S.E, key=lambda e: (e[1], e[0])))
        dag = all(a < b for a, b in S.E)
        if bool(G.is_dag()) != dag:
            return bad("is_dag", G.is_dag(), dag)
    else:
        E = set(exp_edges)
        for u in range(1, S.L + 1):
            exp = sorted(v for (a, v) in E if a == u)
            if list(G.right_neighbors(u)) != exp:
                return bad("right-neighbours", (u, list(G.right_neighbors(u))), exp)
            if G.right_degree(u) != len(exp):
                return bad("degree", (u, G.right_degree(u)), len(exp))
        for v in range(1, S.R + 1):
            exp = sorted(u for (u, b) in E if b == v)
            if list(G.left_neighbors(v)) != exp:
                return bad("left-neighbours", (v, list(G.left_neighbors(v))), exp)
            if G.left_degree(v) != len(exp):
                return bad("degree", (v, G.left_degree(v)), len(exp))
        if not G.is_bipartite():
            return bad("type-flags", G.is_bipartite(), True)
    return True


def apply(ctx, G, S, op, where):
    """Apply one operation to object and model; judge refusals."""
    name, args = op[0], op[1:]
    kind = S.kind
    ctx.count("ops_applied")
    if name == "add_edge":
        u, v = args
        st, val = ctx.call(G.add_edge, u, v)
        if S.valid(u, v):
            if st == "exc":
                ctx.violation("%s:add_edge-refuses-valid" % kind, "%s: add_edge(%r,%r) raised %r" % (where, u, v, val))
            else:
                S.E.add(S.norm(u, v))
                if kind == "digraph" and not u < v:
                    ctx.count("dag_flag_flips")
        elif st == "exc":
            ctx.count("refusals_observed")
        elif kind != "complete-bipartite":
            ctx.violation("%s:add_edge-accepts-invalid" % kind,
                          "%s: add_edge(%r,%r) was not refused" % (where, u, v))
    elif name == "add_edges_from":
        edges = [tuple(e) for e in args[0]]
        st, val = ctx.call(G.add_edges_from, list(edges))
        stopped = False
        for (u, v) in edges:
            if S.valid(u, v):
                S.E.add(S.norm(u, v))
            elif kind != "complete-bipartite":
                stopped = True
                break
        if stopped and st != "exc":
            ctx.violation("%s:add_edges_from-accepts-invalid" % kind, "%s: add_edges_from(%r) was not refused" % (where, edges))
        elif stopped:
            ctx.count("refusals_observed")
        elif st == "exc":
            ctx.violation("%s:add_edges_from-refuses-valid" % kind, "%s: add_edges_from(%r) raised %r" % (where, edges, val))
    elif name == "remove_edge":
        u, v = args
        had = S.has(u, v)
        st, val = ctx.call(G.remove_edge, u, v)
        if had:
            S.E.discard(S.norm(u, v))
            ctx.count("removals_effective")
            if st == "exc":
                ctx.violation("simple:remove_edge-raises", "%s: remove_edge(%r,%r) raised %r" % (where, u, v, val))
    elif name == "update_vertex_number":
        k = args[0]
        st, val = ctx.call(G.update_vertex_number, k)
        if isinstance(k, int) and k >= 0:
            if st == "exc":
                ctx.violation("simple:update_vertex_number-raises", "%s: update_vertex_number(%r) raised %r" % (where, k, val))
            if k > S.n:
                ctx.count("vertex_growths_effective")
            S.n = max(S.n, k)
        elif st == "exc":
            ctx.count("refusals_observed")
        else:
            ctx.violation("simple:update_vertex_number-accepts-invalid", "%s: update_vertex_number(%r) accepted" % (where, k))


def nx_view(ctx, G, S, where):
    """to_networkx() of the current state against the model (vertices and edges only)."""
    kind = S.kind
    ctx.count("networkx_views_along_history")
    _Busy.depth += 1
    try:
        X = G.to_networkx()
    finally:
        _Busy.depth -= 1
    if kind == "simple":
        got = sorted((min(a, b), max(a, b)) for a, b in X.edges())
        nodes_ok = sorted(X.nodes()) == list(range(1, S.n + 1))
    elif kind == "digraph":
        got = sorted(X.edges())
        nodes_ok = sorted(X.nodes()) == list(range(1, S.n + 1))
    else:
        got = sorted((min(a, b), max(a, b) - S.L) for a, b in X.edges())
        nodes_ok = X.number_of_nodes() == S.L + S.R
    if got != S.edges() or not nodes_ok:
        ctx.violation(kind + ":to_networkx-shows-an-earlier-state", "%s: to_networkx() has edges %r, the graph has %r"
                      % (where, got[:12], S.edges()[:12]))
        return False
    return True


def finish(ctx, G, S, where):
    """networkx round trip at the end of a history."""
    import networkx
    import cnfgen.graphs as g
    kind = S.kind
    ctx.count("networkx_round_trips")
    X = G.to_networkx()
    if kind in ("simple", "digraph"):
        if sorted(X.nodes()) != list(range(1, S.n + 1)):
            ctx.violation(kind + ":to_networkx-nodes", "%s: nodes %r" % (where, sorted(X.nodes())))
            return
        if kind == "simple":
            got = sorted((min(a, b), max(a, b)) for a, b in X.edges())
        else:
            got = sorted(X.edges())
        if got != S.edges() or X.is_directed() != (kind == "digraph"):
            ctx.violation(kind + ":to_networkx-edges", "%s: edges %r, model %r" % (where, got, S.edges()))
            return
        cls = g.Graph if kind == "simple" else g.DirectedGraph
    else:
        left = sorted(v for v, d in X.nodes(data=True) if d.get("bipartite") == 0)
        right = sorted(v for v, d in X.nodes(data=True) if d.get("bipartite") == 1)
        if left != list(range(1, S.L + 1)) or right != list(range(S.L + 1, S.L + S.R + 1)):
            ctx.violation(kind + ":to_networkx-nodes", "%s: parts %r %r" % (where, left, right))
            return
        got = sorted((min(a, b), max(a, b) - S.L) for a, b in X.edges())
        if got != S.edges():
            ctx.violation(kind + ":to_networkx-edges", "%s: edges %r, model %r" % (where, got, S.edges()))
            return
        cls = g.BipartiteGraph
    for how in ("from_networkx", "normalize"):
        st, H = ctx.call(getattr(cls, how), X)
        if st == "exc":
            ctx.violation(kind + ":%s-raises" % how, "%s: %s raised %r" % (where, how, H))
            return
        S2 = S
        if kind == "complete-bipartite":
            S2 = Shadow("bipartite", L=S.L, R=S.R)
            S2.E = set(S.edges())
        compare(ctx, H, S2, where + " after %s(to_networkx())" % how)
    if kind in ("simple", "digraph") and S.n >= 1:
        # the same networkx graph under other labels that sort the same way: floats and fractions equal to 1..n, and
        # arbitrary increasing numbers (the documented conversion numbers the vertices by sorted label)
        from fractions import Fraction
        for tag, f in (("float labels 1.0..n", float), ("Fraction labels", Fraction), ("labels 10v+0.5", lambda v: 10 * v + 0.5),
                       ("mixed int/float labels", lambda v: float(v) if v % 2 else v)):
            Y = (networkx.DiGraph() if kind == "digraph" else networkx.Graph())
            Y.add_nodes_from(f(v) for v in range(1, S.n + 1))
            Y.add_edges_from((f(a), f(b)) for a, b in X.edges())
            ctx.count("networkx_relabelled_inputs")
            st, H = ctx.call(cls.from_networkx, Y)
            if st == "exc":
                ctx.violation(kind + ":from_networkx-raises", "%s: from_networkx of the same graph with %s raised %r" % (where, tag, H))
                return
            compare(ctx, H, S, where + " after from_networkx(%s)" % tag)
    if kind == "simple" and S.n >= 1:
        # a networkx DiGraph / MultiDiGraph holding both arcs of some edges is still that simple graph
        for tag, Y in (("DiGraph with both arcs", networkx.DiGraph()), ("MultiDiGraph with both arcs", networkx.MultiDiGraph())):
            Y.add_nodes_from(range(1, S.n + 1))
            for j, (a, b) in enumerate(X.edges()):
                Y.add_edge(a, b)
                if j % 2 == 0:
                    Y.add_edge(b, a)
            ctx.count("networkx_relabelled_inputs")
            st, H = ctx.call(cls.from_networkx, Y)
            if st == "exc":
                ctx.violation(kind + ":from_networkx-raises", "%s: from_networkx of the same graph as a %s raised %r" % (where, tag, H))
                return
            compare(ctx, H, S, where + " after from_networkx(%s)" % tag)
    if kind == "bipartite" and S.L + S.R >= 1:
        # the sides spelled as text ('0' / '1', what the dot reader delivers), as bool, as float; right vertices listed first
        # or interleaved; edges listed from either end: each side is numbered in node order
        for tag, side in (("text sides", lambda c: str(c)), ("bool sides", bool), ("int sides, right first", int)):
            Y = networkx.Graph()
            order = [("r", v) for v in range(1, S.R + 1)] + [("l", u) for u in range(1, S.L + 1)]
            if tag == "bool sides":
                order = [x for pair in zip([("l", u) for u in range(1, S.L + 1)] + [None] * S.R, [("r", v) for v in range(1, S.R + 1)] + [None] * S.L)
                         for x in pair if x is not None]
            for (sd, i) in order:
                Y.add_node("%s%d" % (sd, i), bipartite=side(0 if sd == "l" else 1))
            for j, (u, v) in enumerate(S.edges()):
                if j % 2:
                    Y.add_edge("l%d" % u, "r%d" % v)
                else:
                    Y.add_edge("r%d" % v, "l%d" % u)
            ctx.count("networkx_relabelled_inputs")
            st, H = ctx.call(cls.from_networkx, Y)
            if st == "exc":
                ctx.violation(kind + ":from_networkx-raises", "%s: from_networkx of the same graph with %s raised %r" % (where, tag, H))
                return
            S3 = Shadow("bipartite", L=S.L, R=S.R)
            S3.E = set(S.edges())
            compare(ctx, H, S3, where + " after from_networkx(%s)" % tag)
    if cls.normalize(G) is not G:
        ctx.violation(kind + ":normalize-copies", "%s: normalize() of a cnfgen graph returned another object" % where)


def run_history(ctx, kind, start, ops, look_every=1):
    """look_every = k > 1: the observer lists the graph's views only after every k-th operation (and at the end); in
    between the operations run unobserved -- no listing, no class invariant -- as in a program that edits a graph several
    times before it looks at it again."""
    install_invariants()
    before = len(_installed["failures"])
    G, S = make(kind, start)
    where = "%s%r" % (kind, tuple(start))
    if not compare(ctx, G, S, where + " (initial)"):
        return
    done = []
    old_views = [(0, G.edges())]            # view objects handed out earlier must keep showing the current graph
    if look_every > 1:
        ctx.count("histories_observed_only_now_and_then")
    for op in ops:
        done.append(op)
        w = "%s after %r" % (where, done)
        if look_every > 1 and len(done) % look_every and len(done) != len(ops):
            _Busy.depth += 1
            try:
                apply(ctx, G, S, op, w)
            finally:
                _Busy.depth -= 1
            continue
        apply(ctx, G, S, op, w)
        if not compare(ctx, G, S, w):
            break
        if len(done) in (1, 3, 7):
            old_views.append((len(done), G.edges()))
        if len(done) in (1, 2, 4, 6, 9, 14, 20):
            # the networkx view is requested several times along a history, not only at its end
            nx_view(ctx, G, S, w)
        stale = False
        # views kept from earlier are listed again after some operations only: between two listings the graph may have
        # gone through several edits that leave its counts where they were
        reread = (len(done) * 7 + len(ops)) % 3 == 0 or len(done) == len(ops)
        for born, view in (old_views if reread else []):
            ctx.count("old_view_rereads")
            _Busy.depth += 1
            try:
                got = [tuple(e) for e in view]
                ln = len(view)
            finally:
                _Busy.depth -= 1
            if got != S.edges() or ln != len(S.edges()):
                ctx.violation("%s:edge-view-obtained-earlier-is-stale" % kind,
                              "%s: the edges() view obtained after step %d lists %r (len %d), the graph has %r"
                              % (w, born, got[:12], ln, S.edges()[:12]))
                stale = True
                break
        if stale:
            break
    else:
        finish(ctx, G, S, "%s after %r" % (where, done))
    ctx.counters["invariant_evaluations"] = _installed["evals"]
    for f in _installed["failures"][before:]:
        ctx.violation("%s:class-invariant" % kind, "%s after %r: %s" % (where, done, f))
    nontrivial = len(S.E) > 0 or any(o[0] == "remove_edge" for o in ops)
    ctx.judged((kind, tuple(start), tuple(map(repr, ops))), nontrivial=nontrivial,
               sample={"class": kind, "start": start, "history": ops, "final_edges": S.edges()[:12]})


# ------------------------------------------------------------------ workloads
def alphabet(kind, start):
    ops = []
    if kind in ("simple", "digraph"):
        n = start[1] + (1 if start[0] == "star" else 0)
        rng = range(0, n + 2)
        ops += [("add_edge", u, v) for u in rng for v in rng]
        if kind == "simple":
            ops += [("remove_edge", u, v) for u in rng for v in rng]
            ops += [("update_vertex_number", k) for k in (-1, 0, n, n + 1, n + 3)]
        ops.append(("add_edges_from", [(1, 2), (0, 1), (2, 3)]))
        ops.append(("add_edges_from", [(1, n), (n, 1), (1, n + 1)]))
    else:
        L, R = start[1], start[2]
        ops += [("add_edge", u, v) for u in range(0, L + 2) for v in range(0, R + 2)]
        ops.append(("add_edges_from", [(1, 1), (L, R), (L + 1, 1)]))
    return ops


def case_enumerated(ctx, kind, start, length, first):
    ops = alphabet(kind, start)
    if length == 0:
        run_history(ctx, kind, start, [])
        return
    for rest in itertools.product(ops, repeat=length - 1):
        run_history(ctx, kind, start, [ops[first]] + list(rest))


def random_op(r, kind, S):
    if kind in ("simple", "digraph"):
        n = S.n
        pick = lambda: r.randint(-1, n + 2) if r.random() < 0.25 else r.randint(1, max(1, n))
        x = r.random()
        if kind == "simple" and x < 0.22:
            if S.E and r.random() < 0.7:
                u, v = r.choice(sorted(S.E))
                return ("remove_edge", u, v) if r.random() < 0.5 else ("remove_edge", v, u)
            return ("remove_edge", pick(), pick())
        if kind == "simple" and x < 0.30:
            return ("update_vertex_number", r.choice([-2, 0, n, n + 1, n + 2, r.randint(0, n + 3)]))
        if x < 0.34:
            k = r.randint(0, 4)
            return ("add_edges_from", [(pick(), pick()) for _ in range(k)])
        if x < 0.40 and n >= 2:
            # a long batch, not in increasing order, possibly with an invalid pair somewhere after valid ones
            k = r.randint(20, 70)
            batch = []
            for _ in range(k):
                u, v = r.randint(1, n), r.randint(1, n)
                if u != v or kind == "digraph":
                    batch.append((u, v))
            if r.random() < 0.6 and batch:
                batch.insert(r.randint(len(batch) // 2, len(batch)), (r.randint(1, n), n + 1 + r.randint(0, 1)))
            return ("add_edges_from", batch)
        if S.E and r.random() < 0.15:
            u, v = r.choice(sorted(S.E))        # duplicate insertion, possibly flipped
            return ("add_edge", v, u) if r.random() < 0.5 else ("add_edge", u, v)
        return ("add_edge", pick(), pick())
    L, R = S.L, S.R
    pu = lambda: r.randint(-1, L + 2) if r.random() < 0.2 else r.randint(1, max(1, L))
    pv = lambda: r.randint(-1, R + 2) if r.random() < 0.2 else r.randint(1, max(1, R))
    if r.random() < 0.15:
        return ("add_edges_from", [(pu(), pv()) for _ in range(r.randint(0, 4))])
    return ("add_edge", pu(), pv())


def case_random(ctx, kind, start, rseed, count, maxlen):
    r = ctx.rng("c16", kind, tuple(start), rseed)
    for _ in range(count):
        # the history generator follows its own model copy so that operations hit existing edges
        _, S = make(kind, start)
        ops = []
        for _ in range(r.randint(1, maxlen)):
            op = random_op(r, kind, S)
            ops.append(op)
            # advance the generator's model (same rules as apply, without the object)
            if op[0] == "add_edge" and S.valid(op[1], op[2]):
                S.E.add(S.norm(op[1], op[2]))
            elif op[0] == "add_edges_from":
                for (u, v) in op[1]:
                    if not S.valid(u, v):
                        break
                    S.E.add(S.norm(u, v))
            elif op[0] == "remove_edge" and S.has(op[1], op[2]):
                S.E.discard(S.norm(op[1], op[2]))
            elif op[0] == "update_vertex_number" and isinstance(op[1], int) and op[1] >= 0:
                S.n = max(S.n, op[1])
        run_history(ctx, kind, start, ops, look_every=r.choice((1, 1, 2, 3, 4)))


def case_two_objects(ctx, kind, start, rseed, count, maxlen):
    """Two graphs of the same class alive at the same time, edited alternately: each one's views must follow its own
    insertions only (class-level or module-level state shared between instances shows here and nowhere else)."""
    install_invariants()
    r = ctx.rng("c16two", kind, tuple(start), rseed)
    for _ in range(count):
        before = len(_installed["failures"])
        objs = [make(kind, start), make(kind, start)]
        done = []
        ok = True
        for _ in range(r.randint(2, maxlen)):
            k = r.randrange(2)
            G, S = objs[k]
            op = random_op(r, kind, S)
            done.append((k, op))
            w = "two %s%r objects alive, after %r" % (kind, tuple(start), done[-8:])
            apply(ctx, G, S, op, w)
            ctx.count("interleaved_ops_on_two_objects")
            for j, (Gj, Sj) in enumerate(objs):
                if not compare(ctx, Gj, Sj, w + " (object %d)" % j):
                    ok = False
            if not ok:
                break
        if ok:
            for j, (Gj, Sj) in enumerate(objs):
                nx_view(ctx, Gj, Sj, "two %s objects alive, at the end (object %d)" % (kind, j))
        ctx.counters["invariant_evaluations"] = _installed["evals"]
        for f in _installed["failures"][before:]:
            ctx.violation("%s:class-invariant" % kind, "two objects alive, after %r: %s" % (done[-8:], f))
        ctx.judged(("two", kind, tuple(start), tuple(map(repr, done))), nontrivial=any(len(S.E) for _, S in objs),
                   sample={"class": kind, "start": start, "interleaved_history": [list(map(repr, d)) for d in done[:10]]})


def case_equal_but_not_identical(ctx, rseed):
    """Vertices given as two different int objects of the same value (one parsed from text, one computed), on graphs
    with more than 256 vertices, where the interpreter no longer shares small-integer objects: self-loops, repeated
    edges and membership must be judged by value."""
    import cnfgen.graphs as g
    r = ctx.rng("c16ident", rseed)
    for n in (257, 300, 1000):
        for kind in ("simple", "digraph", "bipartite"):
            for v in sorted({257, n, r.randint(258, n) if n > 258 else n, 12}):
                G = g.Graph(n) if kind == "simple" else g.DirectedGraph(n) if kind == "digraph" else g.BipartiteGraph(n, n)
                where = "%s(%d)" % (type(G).__name__, n)
                a, b = int(str(v)), (v - 1) + 1          # equal values, different objects above the small-int cache
                ctx.count("equal_but_distinct_int_arguments")
                if kind != "bipartite":
                    st, e = ctx.call(G.add_edge, a, b)
                    loops = kind == "digraph" and st == "ok"
                    if st == "ok" and kind == "simple":
                        ctx.violation("simple:self-loop-accepted", "%s: add_edge(%d, %d) with two int objects of equal value was accepted" % (where, v, v))
                    if kind == "simple" and (G.has_edge(a, b) or G.number_of_edges() != 0 or G.degree(v) != 0):
                        ctx.violation("simple:self-loop-accepted", "%s after add_edge(%d, %d): has_edge %r, %d edges, degree %d"
                                      % (where, v, v, G.has_edge(a, b), G.number_of_edges(), G.degree(v)))
                        G = g.Graph(n)
                if kind == "digraph":
                    G = g.DirectedGraph(n)
                # an ordinary edge given twice through different objects is one edge
                u1, u2 = int(str(v)), (v - 1) + 1
                w1, w2 = int(str(v - 1)), (v - 2) + 1
                before = G.number_of_edges()
                s1, _ = ctx.call(G.add_edge, w1, u1) if kind != "bipartite" else ctx.call(G.add_edge, u1, w1)
                s2, _ = ctx.call(G.add_edge, w2, u2) if kind != "bipartite" else ctx.call(G.add_edge, u2, w2)
                if s1 == "ok" and s2 == "ok":
                    if G.number_of_edges() != before + 1:
                        ctx.violation("%s:edge-given-twice-through-equal-ints" % kind, "%s: add_edge twice with equal values (%d, %d): %d new edges"
                                      % (where, v - 1, v, G.number_of_edges() - before))
                    ok = G.has_edge(int(str(v - 1)), int(str(v))) if kind != "bipartite" else G.has_edge(int(str(v)), int(str(v - 1)))
                    if not ok:
                        ctx.violation("%s:has_edge-by-identity" % kind, "%s: has_edge with fresh int objects does not find the edge (%d, %d)" % (where, v - 1, v))
            ctx.judged(("ident", kind, n), nontrivial=True, sample={"class": type(G).__name__, "vertices": n})


def case_huge_indices(ctx, rseed):
    """Bipartite graphs with astronomically long sides and a handful of edges whose endpoints differ by the moduli of
    machine arithmetic (2^32, 2^61-1 -- the modulus of integer hashing --, 2^63, 2^64): different pairs are different
    edges.  Only the touched vertices are looked at."""
    from cnfgen.graphs import BipartiteGraph
    r = ctx.rng("c16huge", rseed)
    MODS = [2 ** 61 - 1, 2 ** 32, 2 ** 31 - 1, 2 ** 63, 2 ** 64, 2 ** 53, 2 * (2 ** 61 - 1)]
    for side in ("left", "right", "both"):
        for mod in MODS:
            L = 2 ** 66 if side in ("left", "both") else 12
            R = 2 ** 66 if side in ("right", "both") else 12
            st, B = ctx.call(BipartiteGraph, L, R)
            if st == "exc":
                ctx.count("huge_sides_declined")
                continue
            base_u, base_v = r.randint(1, 9), r.randint(1, 9)
            twins = []
            for k in (0, 1, 2):
                u = base_u + (k * mod if side in ("left", "both") else 0)
                v = base_v + (k * mod if side in ("right", "both") else 0)
                twins.append((u, v))
            model = set()
            where = "BipartiteGraph(%d,%d)" % (L, R)
            ok = True
            for i, (u, v) in enumerate(twins):
                for (a, b) in twins:
                    st, h = ctx.call(B.has_edge, a, b)
                    if st == "exc" or bool(h) != ((a, b) in model):
                        ctx.violation("bipartite:huge-indices:has_edge", "%s after add_edge of %r: has_edge(%d,%d) is %r"
                                      % (where, sorted(model), a, b, h))
                        ok = False
                st, e = ctx.call(B.add_edge, u, v)
                if st == "exc":
                    ctx.violation("bipartite:huge-indices:add_edge-raises:%s" % type(e).__name__, "%s: add_edge(%d,%d) raised %r" % (where, u, v, e))
                    ok = False
                    break
                model.add((u, v))
                ctx.count("edges_between_huge_indices")
                if B.number_of_edges() != len(model):
                    ctx.violation("bipartite:huge-indices:edge-count", "%s after add_edge of %r: number_of_edges() is %d"
                                  % (where, sorted(model), B.number_of_edges()))
                    ok = False
                rn = sorted(B.right_neighbors(u))
                ln = sorted(B.left_neighbors(v))
                if rn != sorted(b for (a, b) in model if a == u) or ln != sorted(a for (a, b) in model if b == v):
                    ctx.violation("bipartite:huge-indices:neighbours", "%s after add_edge of %r: right_neighbors(%d) = %r, left_neighbors(%d) = %r"
                                  % (where, sorted(model), u, rn[:5], v, ln[:5]))
                    ok = False
                if not ok:
                    break
            ctx.judged(("huge", side, mod), nontrivial=True, sample={"sides": [L, R], "edges": [list(t) for t in twins]})


def case_batch_sweep(ctx, kind, sizes, rseed):
    """add_edges_from with batches of every length in a range (a bulk path may begin at any unremarkable size), valid
    and with an invalid pair after out-of-order valid ones, followed by single insertions and a removal."""
    r = ctx.rng("c16batch", kind, rseed, tuple(sizes[:2]))
    for k in sizes:
        n = max(6, int((2.2 * k) ** 0.5) + 3)
        L, R = (n // 2 + 1, n // 2 + 2)
        batch = []
        while len(batch) < k:
            if kind == "bipartite":
                batch.append((r.randint(1, L), r.randint(1, R)))
            else:
                u, v = r.randint(1, n), r.randint(1, n)
                if u != v or kind == "digraph":
                    batch.append((u, v))
        for bad in (False, True):
            b = list(batch)
            if bad:
                b.insert(r.randint(len(b) // 2, len(b)), (0, 1) if kind != "simple" else (r.randint(1, n), n + 1))
            ops = [("add_edges_from", b)]
            if kind == "bipartite":
                ops += [("add_edge", r.randint(1, L), r.randint(1, R)) for _ in range(3)]
                start = ["BipartiteGraph", L, R]
            else:
                ops += [("add_edge", r.randint(1, n), r.randint(1, n)) for _ in range(3)]
                if kind == "simple" and batch:
                    ops.append(("remove_edge",) + tuple(batch[0]))
                start = ["Graph" if kind == "simple" else "DirectedGraph", n]
            ctx.count("batch_sweep_histories")
            _Busy.depth += 1            # the per-call class invariants cost O(edges) each: here the views are compared after every operation instead
            try:
                run_history(ctx, kind, start, ops)
            finally:
                _Busy.depth -= 1


def case_repo_tests(ctx):
    """The repository's own tests with the class invariants installed (thorough tier)."""
    import json
    import os
    import subprocess
    import sys
    import tempfile
    from .. import REPO, VERIF
    out = tempfile.mktemp(suffix=".json")
    env = dict(os.environ, VMON_GRAPHINV_REPORT=out, PYTHONPATH=VERIF + os.pathsep + os.path.join(VERIF, ".deps"))
    p = subprocess.run([sys.executable, "-m", "pytest", "-q", "-p", "no:cacheprovider", "-p", "vmon.monitors.pytest_graphinv",
                        "--timeout=900", "--continue-on-collection-errors", "-q", "tests"], cwd=REPO, env=env,
                       capture_output=True, text=True, timeout=2400)
    if not os.path.exists(out):
        ctx.problems.append({"kind": "repo-tests-no-report", "case": ctx.case, "traceback": p.stdout[-1500:] + p.stderr[-1500:]})
        return
    data = json.load(open(out))
    os.unlink(out)
    ctx.count("repo_tests_invariant_evaluations", data["evaluations"])
    for f in data["failures"][:10]:
        ctx.violation("class-invariant(repo-tests)", "while the repository's tests ran: %s" % f)
    ctx.judged(("repo-tests",), nontrivial=True, sample={"repo_tests_invariant_evaluations": data["evaluations"]})


def workload(tier, seed):
    maxlen = 2 if tier == "quick" else 3
    yield "huge_indices", {"rseed": seed}
    yield "equal_but_not_identical", {"rseed": seed}
    enum_starts = [("simple", ["Graph", 2]), ("simple", ["Graph", 3]), ("simple", ["complete", 3]),
                   ("digraph", ["DirectedGraph", 2]), ("digraph", ["DirectedGraph", 3]),
                   ("bipartite", ["BipartiteGraph", 2, 2]), ("bipartite", ["BipartiteGraph", 1, 3]),
                   ("complete-bipartite", ["CompleteBipartiteGraph", 2, 2])]
    for kind, start in enum_starts:
        yield "enumerated", {"kind": kind, "start": start, "length": 0, "first": 0}
        nops = len(alphabet(kind, start))
        for length in range(1, maxlen + 1):
            if length == 3 and kind == "simple" and start[1] == 3:
                continue                                # 66^3: left to the random histories
            for first in range(nops):
                yield "enumerated", {"kind": kind, "start": start, "length": length, "first": first}
    starts = []
    for n in list(range(0, 7)) + [9, 12]:
        starts += [("simple", ["Graph", n]), ("digraph", ["DirectedGraph", n])]
    starts += [("simple", ["complete", 4]), ("simple", ["star", 3]), ("simple", ["empty", 5]),
               ("simple", ["null", 0])]
    for L in range(0, 5):
        for R in range(0, 5):
            if (L + R) % 2 == 0 or L * R >= 6:
                starts.append(("bipartite", ["BipartiteGraph", L, R]))
    starts += [("complete-bipartite", ["CompleteBipartiteGraph", 3, 2]),
               ("complete-bipartite", ["CompleteBipartiteGraph", 0, 2])]
    if tier != "quick":
        yield "repo_tests", {}
    for kind, start in starts:
        if sum(x for x in start[1:] if isinstance(x, int)) >= 3:
            for b in range(1 if tier == "quick" else 10):
                yield "two_objects", {"kind": kind, "start": start, "rseed": seed * 1000 + b, "count": 20, "maxlen": 40}
    sweep = sorted(set(list(range(seed % 23, 1300, 23)) + [999, 1000, 1001, 1023, 1024, 1025, 2048, 4096])) if tier == "quick" else \
        list(range(0, 2100)) + [4095, 4096, 4097, 10000]
    for kind in ("simple", "digraph", "bipartite"):
        for i in range(0, len(sweep), 12):
            yield "batch_sweep", {"kind": kind, "sizes": sweep[i:i + 12], "rseed": seed}
    batches = 2 if tier == "quick" else 40
    for kind, start in starts:
        for b in range(batches):
            yield "random", {"kind": kind, "start": start, "rseed": seed * 1000 + b,
                             "count": 60, "maxlen": 60 if b % 2 else 12}

"""Command-line corpora shared by C07, C08, C10, C17: argv tails (after the tool name)
for every formula sub-command, with graph arguments valid for the sub-command."""

SIMPLE_DET = [["complete", "3"], ["complete", "2", "2"], ["empty", "3"], ["grid", "2", "2"], ["grid", "3"],
              ["torus", "3"], ["complete", "4"], ["grid", "2", "3"], ["empty", "1"], ["complete", "1"]]
SIMPLE_RND = [["gnp", "4", ".5"], ["gnm", "4", "3"], ["gnd", "4", "2"], ["gnp", "2", ".5", "2"],
              ["grid", "2", "2", "addedges", "1"], ["empty", "4", "plantclique", "3"],
              ["complete", "3", "splitedges", "1"], ["gnm", "5", "4", "plantclique", "3"]]
BIP_DET = [["complete", "2", "2"], ["empty", "2", "2"], ["shift", "3", "3", "0", "1"], ["complete", "1", "3"],
           ["shift", "2", "4", "1", "2"], ["complete", "3", "1"]]
BIP_RND = [["glrp", "2", "3", ".5"], ["glrm", "2", "3", "3"], ["glrd", "3", "3", "2"], ["regular", "3", "3", "2"],
           ["empty", "2", "2", "plantbiclique", "1", "1"], ["glrm", "2", "2", "1", "addedges", "1"],
           ["regular", "4", "2", "1"]]
DAG_DET = [["path", "3"], ["tree", "1"], ["pyramid", "1"], ["pyramid", "2"], ["path", "0"], ["tree", "2"]]

# even-degree graphs for the even colouring formula
EVEN_DET = [["torus", "3"], ["complete", "3"], ["complete", "5"], ["empty", "2"], ["torus", "2", "3"]]
EVEN_RND = [["gnd", "5", "2"], ["gnd", "6", "4"]]


def small(rng=None, randomized=True):
    """[(subcommand, argv_tail)] -- formulas small enough for exact model sets (<= ~20 variables)."""
    S = SIMPLE_DET + (SIMPLE_RND if randomized else [])
    B = BIP_DET + (BIP_RND if randomized else [])
    D = DAG_DET
    EV = EVEN_DET + (EVEN_RND if randomized else [])
    out = []
    add = lambda name, *tail: out.append((name, [name] + [str(t) for t in tail]))
    for p, n in ((0, 0), (2, 1), (0, 3), (3, 0), (2, 2)):
        add("and", p, n)
        add("or", p, n)
    add("true")
    add("false")
    for m, n in ((1, 1), (2, 3), (3, 2), (3, 5), (4, 8), (1, 4)):
        add("bphp", m, n)
    for n, k, c in ((2, 1, 1), (3, 2, 2), (3, 3, 2), (2, 2, 1), (0, 1, 1), (3, 1, 3)):
        add("cliquecoloring", n, k, c)
    for M, p in ((0, 1), (4, 2), (5, 2), (6, 3), (3, 3), (5, 1), (2, 3)):
        add("count", M, p)
    for N in (0, 1, 4, 5, 6):
        add("parity", N)
    for a, b, c in ((1, 1, 1), (2, 2, 2), (1, 2, 4), (3, 2, 1), (2, 1, 2)):
        add("cpls", a, b, c)
    for G in S:
        for d in (1, 2):
            add("domset", d, *G)
            add("domset", "-a", d, *G)
        add("tiling", *G)
        add("matching", *G)
        for k in (1, 2, 3):
            add("kcolor", k, *G)
        for k in (0, 1, 2, 3):
            add("kclique", k, *G)
            add("kclique", k, *G, "--no-symmetry-breaking")
        for k in (1, 2, 3):
            add("kcliquebin", k, *G)
        for k, s in ((2, 2), (3, 2), (1, 3), (0, 0)):
            add("ramlb", k, s, *G)
        add("op", *G)
        add("op", "--plant", *G)
        add("op", "--total", *G)
        add("op", "--smart", *G)
        add("op", "--knuth2", *G)
        add("op", "--knuth3", "-p", *G)
        add("tseitin", "first", *G)
        add("tseitin", "zero", *G)
        add("tseitin", "one", *G)
        if randomized:
            add("tseitin", "random", *G)
            add("tseitin", "randomodd", *G)
            add("tseitin", "randomeven", *G)
        add("iso", *G)
    for G in EV:
        add("ec", *G)
    for G1 in S[:6]:
        for G2 in S[:4]:
            add("iso", *G1, "-e", *G2)
            add("subgraph", "-G", *G1, "-H", *G2)
    for N in (0, 1, 2, 3, 4):
        for opts in ([], ["--total"], ["--smart"], ["--knuth2"], ["--knuth3"], ["--plant"], ["-t", "-p"]):
            add("op", *opts, N)
    if randomized:
        add("op", 4, 2)
        add("op", 4, 3)
        add("tseitin", 4)            # the help documents a random 4-regular graph: needs N >= 5
        add("tseitin", 6)
        add("tseitin", 4, 2)
        add("tseitin", 5, 2)
    for Dg in D:
        add("peb", *Dg)
        for s in (1, 2):
            add("stone", s, *Dg)
        if randomized:
            add("stone", 3, *Dg, "--sparse", 2)
            add("stone", 2, *Dg, "--sparse", 1)
    for N in (0, 1, 3):
        add("php", N)
    for m, n in ((0, 0), (2, 3), (3, 2), (4, 4), (1, 0)):
        add("php", m, n)
        add("php", "--functional", m, n)
        add("php", "--onto", m, n)
        add("php", "--functional", "--onto", m, n)
    if randomized:
        add("php", 4, 3, 2)
        add("php", 3, 4, 1)
        add("php", "--functional", 3, 3, 2)
    for G in B:
        add("php", *G)
        add("php", "--onto", *G)
        add("php", "--functional", *G)
        add("subsetcard", *G)
        add("subsetcard", "-e", *G)
    if randomized:
        add("subsetcard", 3, 2)
        add("subsetcard", 4)
        add("subsetcard", "-e", 3, 2)
    for N in (0, 3, 5, 13, 17):
        add("ptn", N)
    for s, k, N in ((1, 1, 2), (2, 2, 3), (3, 3, 5), (3, 2, 4), (2, 4, 5), (3, 3, 6), (3, 4, 0)):
        add("ram", s, k, N)
    for m, t, n in ((0, 0, 0), (2, 2, 2), (2, 3, 2), (3, 2, 2), (1, 2, 3)):
        add("rphp", m, t, n)
    for args in ((5, 2, 2), (8, 3, 3), (9, 2, 3), (4, 1, 2), (5, 2, 2, 2), (4, 3, 1, 2), (0, 2, 2)):
        add("vdw", *args)
    if randomized:
        for v, d, ny, nz, k in ((2, 1, 2, 2, 2), (4, 1, 2, 2, 2), (2, 1, 3, 2, 2)):
            add("pitfall", v, d, ny, nz, k)
        for k, n, m in ((1, 3, 2), (2, 4, 5), (3, 5, 7), (3, 6, 0), (2, 2, 4)):
            add("randkcnf", k, n, m)
            add("randkcnf", "-p", k, n, min(m, 3))
            add("randkxor", k, n, min(m, 4))
            add("randkxor", "-p", k, n, min(m, 2))
    return out


def realistic():
    """[(subcommand, argv_tail)] at realistic sizes (C10, C07): not decided by truth table."""
    out = []
    add = lambda name, *tail: out.append((name, [name] + [str(t) for t in tail]))
    add("php", 30, 25)
    add("php", "--functional", "--onto", 12, 12)
    add("php", "glrd", 40, 30, 3)
    add("php", 20, 15, 4)
    add("bphp", 20, 13)
    add("rphp", 6, 7, 8)
    add("count", 12, 3)
    add("parity", 15)
    add("matching", "gnd", 40, 3)
    add("tseitin", 40, 4)
    add("tseitin", "randomodd", "gnm", 30, 60)
    add("ec", "gnd", 40, 4)
    add("subsetcard", 30, 4)
    add("subsetcard", "-e", 20, 6)
    add("cliquecoloring", 8, 4, 3)
    add("kcolor", 4, "gnp", 30, ".2")
    add("domset", 5, "gnp", 25, ".2")
    add("domset", "-a", 4, "gnm", 20, 40)
    add("tiling", "torus", 5, 6)
    add("iso", "gnm", 12, 20)
    add("iso", "gnm", 10, 15, "-e", "gnm", 10, 15)
    add("subgraph", "-G", "gnp", 14, ".4", "-H", "complete", 4)
    add("kclique", 5, "gnp", 20, ".4")
    add("kclique", 4, "gnp", 13, ".5", "--no-symmetry-breaking")
    add("kcliquebin", 4, "gnp", 13, ".5")
    add("ramlb", 4, 4, "gnp", 12, ".5")
    for opt in ([], ["--total"], ["--smart"], ["--knuth2"], ["--knuth3"], ["--plant"]):
        add("op", *opt, 12)
    add("op", 14, 3)
    add("peb", "pyramid", 10)
    add("peb", "tree", 5)
    add("stone", 4, "pyramid", 5)
    add("stone", 6, "pyramid", 6, "--sparse", 3)
    add("cpls", 3, 4, 4)
    add("pitfall", 8, 3, 4, 4, 4)
    add("ram", 4, 4, 10)
    add("vdw", 40, 3, 4, 5)
    add("vdw", 60, 4, 4)
    add("ptn", 120)
    add("randkcnf", 3, 100, 420)
    add("randkcnf", "-p", 4, 60, 300)
    add("randkxor", 3, 50, 60)
    add("randkxor", "-p", 3, 40, 30)
    add("and", 10, 12)
    add("or", 7, 9)
    return out


TRANSFORMATIONS = [["none"], ["or", "2"], ["xor", "2"], ["eq", "2"], ["neq", "3"], ["maj", "3"], ["ite"], ["one", "2"],
                   ["atleast", "3", "2"], ["atmost", "3", "1"], ["exact", "3", "2"], ["anybut", "3", "1"], ["lift", "2"],
                   ["flip"], ["shuffle"], ["shuffle", "--no-polarity-flips"], ["shuffle", "--no-clauses-permutation"],
                   ["shuffle", "--no-polarity-flips", "--no-variables-permutation", "--no-clauses-permutation"]]

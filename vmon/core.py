"""Case scheduling, three-valued verdicts, evidence, replays, known findings.

A property module (vmon/props/Cxx.py) provides

    workload(tier, seed)  -> iterable of (case_name, args)   args JSON-serialisable
    case_<name>(ctx, **args)                                  one monitored execution (or a batch)
    RULE, ASSUMPTIONS, REQUIRED (counter names that must be positive)

Workers regenerate the workload and take every n-th case, so no case list is
shipped around; each worker is a real subprocess with a timeout.
"""
import collections
import hashlib
import importlib
import json
import os
import random
import re
import signal
import subprocess
import sys
import time
import traceback
from concurrent.futures import ThreadPoolExecutor

from . import REPO, VERIF

MAX_SAMPLES = 6


def jsonable(x):
    """Best-effort conversion of witnesses to JSON."""
    if isinstance(x, (str, int, float, bool)) or x is None:
        return x
    if isinstance(x, dict):
        return {str(k): jsonable(v) for k, v in x.items()}
    if isinstance(x, (list, tuple, set, frozenset, range)):
        return [jsonable(v) for v in x]
    return repr(x)


def hkey(key):
    return int.from_bytes(
        hashlib.blake2b(repr(key).encode(), digest_size=8).digest(), "big")


class CaseTimeout(BaseException):
    pass


class Ctx:
    """What a case function sees: counters, the verdict sink, seeded randomness."""

    def __init__(self, pid, tier, seed):
        self.pid, self.tier, self.seed = pid, tier, seed
        self.counters = collections.Counter()
        self.keys = set()
        self.samples = []
        self.violations = []
        self.problems = []          # harness errors / timeouts -> inconclusive
        self.case = None
        self.slow = []

    # -- observation accounting -------------------------------------------
    def count(self, name, n=1):
        self.counters[name] += n

    def judged(self, key, nontrivial=True, sample=None):
        """One execution of the code under test was decided by an oracle."""
        self.counters["evaluations"] += 1
        if nontrivial:
            h = hkey(key)
            self.keys.add(h)
            # spread the literal samples over the run instead of taking the first few
            if sample is not None and len(self.samples) < MAX_SAMPLES and \
                    (not self.samples or h % 41 == 0):
                self.samples.append(jsonable(sample))
        else:
            self.counters["trivial_cases"] += 1

    def violation(self, mechanism, message, **detail):
        self.counters["violations_raw"] += 1
        # keep the first few witnesses of every mechanism
        same = [v for v in self.violations if v["mechanism"] == mechanism]
        if len(same) < 3:
            self.violations.append({
                "mechanism": mechanism, "message": message,
                "case": jsonable(self.case), "detail": jsonable(detail)})

    def rng(self, *salt):
        return random.Random(repr((self.pid, self.seed) + tuple(salt)))

    # -- calling the code under test ---------------------------------------
    def call(self, fn, *a, **kw):
        """('ok', value) | ('exc', exception).  Never lets the code under test
        unwind the harness (KeyboardInterrupt / CaseTimeout excepted)."""
        try:
            return "ok", fn(*a, **kw)
        except Exception as e:            # noqa: BLE001 - that is the point
            return "exc", e


def _alarm(signum, frame):
    raise CaseTimeout()


# ---------------------------------------------------------------------------
# reach accounting: which lines of the anchored files ran (sys.monitoring)
# ---------------------------------------------------------------------------
class Reach:
    TOOL = 3

    def __init__(self):
        self.lines = set()
        self.on = False

    def start(self):
        mon = getattr(sys, "monitoring", None)
        if mon is None:
            return
        prefix = os.path.join(REPO, "cnfgen") + os.sep
        lines = self.lines

        def cb(code, line):
            fn = code.co_filename
            if fn.startswith(prefix):
                lines.add((fn[len(prefix):], line))
            return mon.DISABLE
        try:
            mon.use_tool_id(self.TOOL, "vmon-reach")
            mon.register_callback(self.TOOL, mon.events.LINE, cb)
            mon.set_events(self.TOOL, mon.events.LINE)
            self.on = True
        except Exception:
            self.on = False

    def stop(self):
        if self.on:
            mon = sys.monitoring
            mon.set_events(self.TOOL, 0)
            mon.free_tool_id(self.TOOL)
            self.on = False


def executable_lines(path):
    """Line numbers that carry code, from the compiled code objects."""
    try:
        src = open(path, encoding="utf-8").read()
        top = compile(src, path, "exec")
    except Exception:
        return set()
    out, todo = set(), [top]
    while todo:
        co = todo.pop()
        for _, _, ln in co.co_lines():
            if ln is not None:
                out.add(ln)
        todo.extend(c for c in co.co_consts if hasattr(c, "co_lines"))
    return out


def anchor_files(pid):
    import glob
    for line in open(os.path.join(VERIF, "properties.jsonl")):
        p = json.loads(line)
        if p["id"] == pid:
            out = []
            for f in p["anchors"]["files"]:
                for g in sorted(glob.glob(os.path.join(REPO, f))):
                    out.append(os.path.relpath(g, os.path.join(REPO, "cnfgen")))
            return out
    return []


# ---------------------------------------------------------------------------
# worker side
# ---------------------------------------------------------------------------
def load_prop(pid):
    return importlib.import_module("vmon.props." + pid)


def run_cases(mod, ctx, cases, timeout):
    signal.signal(signal.SIGALRM, _alarm)
    before = getattr(mod, "BEFORE_CASE", None)
    if os.environ.get("VMON_NO_EARLIER_LIFE") != "1":
        # every worker process has a past: see pollute.long_session
        try:
            from . import pollute
            pollute.long_session(ctx)
        except Exception:       # noqa: BLE001
            ctx.count("earlier_life_failed")
    for name, args in cases:
        ctx.case = [name, args]
        fn = getattr(mod, "case_" + name)
        signal.alarm(timeout)
        t0 = time.time()
        try:
            if before is not None:
                before(ctx)
            fn(ctx, **args)
            ctx.counters["cases"] += 1
            ctx.slow.append((round(time.time() - t0, 2), jsonable(ctx.case)))
            ctx.slow = sorted(ctx.slow, key=lambda x: -x[0])[:3]
        except CaseTimeout:
            ctx.problems.append({"kind": "timeout", "case": jsonable(ctx.case)})
        except Exception as e:
            if type(e).__name__ == "LiteralOutOfRange":
                # raised by the truth-table engine on the formula under test
                ctx.violation("formula:literal-outside-the-declared-variables", "case %r: %s" % (jsonable(ctx.case), e))
                continue
            ctx.problems.append({"kind": "harness-error", "case": jsonable(ctx.case),
                                 "traceback": traceback.format_exc(limit=12)})
        finally:
            signal.alarm(0)
        if len(ctx.problems) > 20:
            break


def worker_main(argv):
    pid, tier, seed, k, n, out = argv[0], argv[1], int(argv[2]), int(argv[3]), int(argv[4]), argv[5]
    import faulthandler
    faulthandler.enable()
    reach = Reach()
    reach.start()
    mod = load_prop(pid)
    ctx = Ctx(pid, tier, seed)
    timeout = getattr(mod, "CASE_TIMEOUT", {"quick": 120, "thorough": 600})[tier]
    if len(argv) > 7 and argv[6] == "opt":
        # a shard of the "interpreter started with -O" pass: every stride-th case of the workload
        stride = max(1, int(argv[7]))
        chosen = (c for i, c in enumerate(mod.workload(tier, seed)) if i % stride == seed % stride)
        cases = (c for j, c in enumerate(chosen) if j % n == k)
    else:
        cases = (c for i, c in enumerate(mod.workload(tier, seed)) if i % n == k)
    try:
        run_cases(mod, ctx, cases, timeout)
    finally:
        reach.stop()
    if len(argv) > 7 and argv[6] == "opt":
        ctx.counters["cases_under_python_O"] = ctx.counters.get("cases", 0)
        if sys.flags.optimize < 1:
            ctx.problems.append({"kind": "harness-error", "case": None, "traceback": "the -O shard did not run optimized"})
        for v in ctx.violations:
            v["mechanism"] = "python-O:" + v["mechanism"]
            v["message"] = "[interpreter started with -O] " + v["message"]
    res = {"counters": dict(ctx.counters), "keys": sorted(ctx.keys),
           "samples": ctx.samples, "violations": ctx.violations,
           "problems": ctx.problems, "lines": sorted(reach.lines), "slow": ctx.slow}
    with open(out, "w") as f:
        json.dump(res, f)


# ---------------------------------------------------------------------------
# driver side
# ---------------------------------------------------------------------------
def slug(s):
    return re.sub(r"[^A-Za-z0-9_.=-]+", "_", s)[:120]


def load_known(pid):
    path = os.path.join(VERIF, "known_findings.json")
    if not os.path.exists(path):
        return []
    data = json.load(open(path))
    return [f for f in data.get("findings", []) if f["property"] == pid]


def run_property(pid, tier, seed, jobs=None, replay=None):
    t0 = time.time()
    mod = load_prop(pid)
    jobs = jobs or min(16, os.cpu_count() or 4)
    scratch = os.path.join(os.environ.get("TMPDIR", "/tmp"), "vmon-%s-%d" % (pid, os.getpid()))
    os.makedirs(scratch, exist_ok=True)
    merged = {"counters": collections.Counter(), "keys": set(), "samples": [],
              "violations": [], "problems": [], "lines": set(), "slow": []}

    if replay:
        data = json.load(open(replay))
        ctx = Ctx(pid, tier, data.get("seed", seed))
        run_cases(mod, ctx, [tuple(data["case"])], 3600)
        merged["counters"].update(ctx.counters)
        merged["violations"] = ctx.violations
        merged["problems"] = ctx.problems
        merged["keys"] = ctx.keys
    else:
        nshards = getattr(mod, "SHARDS", {"quick": jobs, "thorough": jobs * 4})[tier]
        shard_timeout = getattr(mod, "SHARD_TIMEOUT", {"quick": 600, "thorough": 7200})[tier]

        opt_stride = getattr(mod, "PYTHON_O_STRIDE", {}).get(tier)
        n_opt = min(jobs, 4) if opt_stride else 0
        if os.environ.get("VMON_NO_PYTHON_O"):
            n_opt = 0

        def one(k):
            out = os.path.join(scratch, "shard%d.json" % k)
            if k >= nshards:
                # the same cases again, every opt_stride-th of them, in an interpreter started with -O
                cmd = [sys.executable, "-O", "-m", "vmon.worker", pid, tier, str(seed), str(k - nshards), str(n_opt), out,
                       "opt", str(opt_stride)]
            else:
                cmd = [sys.executable, "-m", "vmon.worker", pid, tier, str(seed),
                       str(k), str(nshards), out]
            try:
                p = subprocess.run(cmd, timeout=shard_timeout, capture_output=True, text=True)
            except subprocess.TimeoutExpired:
                return {"problems": [{"kind": "shard-timeout", "shard": k}]}
            if p.returncode != 0 or not os.path.exists(out):
                return {"problems": [{"kind": "shard-crash", "shard": k, "rc": p.returncode,
                                      "stderr": p.stderr[-3000:]}]}
            res = json.load(open(out))
            os.unlink(out)
            return res

        with ThreadPoolExecutor(jobs) as ex:
            for res in ex.map(one, range(nshards + n_opt)):
                merged["counters"].update(res.get("counters", {}))
                merged["keys"].update(res.get("keys", ()))
                for s in res.get("samples", ())[:2]:
                    if len(merged["samples"]) < MAX_SAMPLES:
                        merged["samples"].append(s)
                merged["violations"].extend(res.get("violations", ()))
                merged["problems"].extend(res.get("problems", ()))
                merged["lines"].update(tuple(x) for x in res.get("lines", ()))
                merged["slow"] = sorted(merged["slow"] + [tuple(x) for x in res.get("slow", ())], key=lambda x: -x[0])[:3]
    try:
        os.rmdir(scratch)
    except OSError:
        pass

    # ---- verdict -----------------------------------------------------------
    known = load_known(pid)
    by_mech = collections.OrderedDict()
    for v in merged["violations"]:
        by_mech.setdefault(v["mechanism"], v)
    unknown, hits = [], []
    for mech, v in by_mech.items():
        k = next((f for f in known if f["mechanism"] == mech), None)
        (hits if k else unknown).append((mech, v, k))

    inconclusive = []
    for p in merged["problems"]:
        inconclusive.append("%s %s" % (p["kind"], json.dumps(p.get("case", p.get("shard")))[:200]))
        if "traceback" in p:
            sys.stderr.write(p["traceback"] + "\n")
        if "stderr" in p:
            sys.stderr.write(p["stderr"] + "\n")
    if not replay:
        for c in getattr(mod, "REQUIRED", []):
            if merged["counters"].get(c, 0) <= 0:
                inconclusive.append("monitor counter %r stayed at zero" % c)
        if merged["counters"].get("evaluations", 0) <= 0:
            inconclusive.append("no execution was judged")

    for mech, v, k in hits:
        print("KNOWN-FINDING: property=%s %s [%s]" % (pid, k.get("what", mech), mech))
    rdir = os.path.join(os.environ.get("VERIF_EVIDENCE_DIR") or VERIF, "replays", pid)
    for mech, v, _ in unknown:
        os.makedirs(rdir, exist_ok=True)
        path = os.path.join(rdir, slug(mech) + ".json")
        with open(path, "w") as f:
            json.dump({"property": pid, "seed": seed, "tier": tier, "mechanism": mech,
                       "message": v["message"], "case": v["case"], "detail": v["detail"]},
                      f, indent=1)
        print("VIOLATION property=%s replay=%s" % (pid, path))
        print("  mechanism: %s\n  %s" % (mech, v["message"][:600]))

    wall = time.time() - t0
    if not replay:
        write_evidence(pid, tier, seed, mod, merged, wall, len(unknown), [h[0] for h in hits],
                       inconclusive)
    c = merged["counters"]
    print("%s %s seed=%d: %d evaluations, %d distinct non-trivial, %d violation mechanism(s), "
          "%d known, %.1fs" % (pid, tier, seed, c.get("evaluations", 0), len(merged["keys"]),
                               len(unknown), len(hits), wall))
    if unknown:
        return 1
    if inconclusive:
        for r in inconclusive[:10]:
            print("INCONCLUSIVE property=%s reason=%s" % (pid, r))
        return 2
    return 0


def write_evidence(pid, tier, seed, mod, merged, wall, nviol, known_hit, inconclusive):
    anchors = anchor_files(pid)
    reach = {}
    byfile = collections.defaultdict(set)
    for f, ln in merged["lines"]:
        byfile[f].add(ln)
    for f in anchors:
        total = executable_lines(os.path.join(REPO, "cnfgen", f))
        if total:
            reach[f] = "%d/%d" % (len(byfile.get(f, set()) & total), len(total))
    counters = {k: v for k, v in sorted(merged["counters"].items())}
    cov = {
        "evaluations": counters.get("evaluations", 0),
        "distinct_nontrivial": len(merged["keys"]),
        "rule": getattr(mod, "RULE", ""),
        "samples": merged["samples"] or ["(none recorded)"],
        "exhaustive": False,
        "monitor_counters": counters,
        "anchor_lines_executed": reach,
        "known_findings_reproduced": known_hit,
        "inconclusive_reasons": inconclusive[:10],
        "slowest_cases_s": [[t, str(c)[:160]] for t, c in merged.get("slow", [])],
    }
    sub = getattr(mod, "EXHAUSTIVE_SUBSPACES", None)
    if sub:
        cov["exhaustive_subspaces"] = sub[tier] if isinstance(sub, dict) else sub
    ev = {"property_id": pid, "tier": tier, "seed": seed, "level": "exploration",
          "coverage": cov, "assumptions": list(getattr(mod, "ASSUMPTIONS", [])),
          "wall_s": round(wall, 2), "violations": nviol}
    try:
        import jsonschema
        schema = json.load(open(os.path.join(VERIF, "schemas", "EVIDENCE.schema.json")))
        jsonschema.validate(ev, schema)
    except ImportError:
        pass
    except Exception as e:      # written anyway; an invalid file counts as no evidence
        sys.stderr.write("evidence for %s does not validate: %s\n" % (pid, str(e)[:300]))
    edir = os.environ.get("VERIF_EVIDENCE_DIR") or os.path.join(VERIF, "evidence")
    os.makedirs(edir, exist_ok=True)
    with open(os.path.join(edir, pid + ".json"), "w") as f:
        json.dump(ev, f, indent=1)
        f.write("\n")

"""Driving the four command line tools: in-process (fast) and as real processes.

Traps handled here (DESIGN.md §9): the package __init__ rebinds the module names
to the `cli` functions, so modules are taken from sys.modules; main() closes
sys.stderr; msg._prefix leaks when an exception passes through msg_prefix.
"""
import contextlib
import importlib
import io
import os
import subprocess
import sys
import tempfile

from . import REPO

TOOLS = ("cnfgen", "pbgen", "cnfshuffle", "kthlist2pebbling")


_preloaded = False


def preload_helpers():
    """Import every cnfgen.clihelpers module once: the tools' helper discovery re-executes (and,
    with bytecode off, re-compiles) each module that is not in sys.modules on *every* call."""
    global _preloaded
    if _preloaded:
        return
    import pkgutil
    import cnfgen.clihelpers as pkg
    for _, name, _ in pkgutil.walk_packages(pkg.__path__):
        importlib.import_module(pkg.__name__ + "." + name)
    _preloaded = True


def tool_module(tool):
    preload_helpers()
    importlib.import_module("cnfgen.clitools." + tool)
    return sys.modules["cnfgen.clitools." + tool]


def reset_prefix():
    importlib.import_module("cnfgen.clitools.msg")
    sys.modules["cnfgen.clitools.msg"]._prefix = ""


class _Stream(io.StringIO):
    def close(self):          # main() closes stderr; keep the text
        pass

    def isatty(self):
        return False


class Outcome:
    def __init__(self, rc, out, err, exc):
        self.rc, self.out, self.err, self.exc = rc, out, err, exc

    def __repr__(self):
        return "Outcome(rc=%r, out=%d bytes, err=%r, exc=%r)" % (
            self.rc, len(self.out), self.err[:200], self.exc)


def cli_formula(tool, argv):
    """The formula object `tool`'s cli() builds for argv (argv[0] is the program name)."""
    reset_prefix()
    mod = tool_module(tool)
    old = sys.stdin, sys.stdout, sys.stderr
    sys.stdin, sys.stdout, sys.stderr = _Stream(""), _Stream(), _Stream()
    try:
        return mod.cli(list(argv), mode="formula")
    finally:
        sys.stdin, sys.stdout, sys.stderr = old
        reset_prefix()


def run_main(tool, argv, stdin_text=""):
    """Run the tool's real main() in-process with patched argv and streams."""
    reset_prefix()
    mod = tool_module(tool)
    old = sys.stdin, sys.stdout, sys.stderr, sys.argv
    sin, sout, serr = _Stream(stdin_text), _Stream(), _Stream()
    sys.stdin, sys.stdout, sys.stderr = sin, sout, serr
    sys.argv = [tool] + list(argv)
    rc, exc = 0, None
    try:
        mod.main()
    except SystemExit as e:
        rc = e.code if isinstance(e.code, int) else (0 if e.code is None else 1)
    except BaseException as e:     # noqa: BLE001 - an escaping exception is an observation
        if isinstance(e, KeyboardInterrupt) or type(e).__name__ == "CaseTimeout":
            raise
        exc, rc = e, None
    finally:
        sys.stdin, sys.stdout, sys.stderr, sys.argv = old
        reset_prefix()
    return Outcome(rc, sout.getvalue(), serr.getvalue(), exc)


FAKE_CLOCK = """
import time as _time, datetime as _dt
_T = %r
_lt, _gt, _sf, _ct, _at = _time.localtime, _time.gmtime, _time.strftime, _time.ctime, _time.asctime
_time.time = lambda: _T
_time.time_ns = lambda: int(_T * 10 ** 9)
_time.localtime = lambda s=None: _lt(_T if s is None else s)
_time.gmtime = lambda s=None: _gt(_T if s is None else s)
_time.strftime = lambda f, t=None: _sf(f, _lt(_T) if t is None else t)
_time.ctime = lambda s=None: _ct(_T if s is None else s)
_time.asctime = lambda t=None: _at(_lt(_T) if t is None else t)
class _Date(_dt.date):
    @classmethod
    def today(cls):
        return cls.fromtimestamp(_T)
class _DateTime(_dt.datetime):
    @classmethod
    def now(cls, tz=None):
        return cls.fromtimestamp(_T, tz)
    @classmethod
    def utcnow(cls):
        return cls.utcfromtimestamp(_T)
    @classmethod
    def today(cls):
        return cls.fromtimestamp(_T)
_dt.date, _dt.datetime = _Date, _DateTime
"""


def spawn(tool, argv, stdin_text="", cwd=None, env=None, timeout=120, clock=None, pyflags=()):
    """Run the tool as a real process (fresh interpreter).  clock (seconds since the epoch) pins what the child's time and
    datetime modules report, from before cnfgen is imported."""
    code = ("import sys; sys.path.insert(0, %r); sys.argv[0] = %r; "
            "from cnfgen.clitools.%s import main; main()" % (REPO, tool, tool))
    if clock is not None:
        code = FAKE_CLOCK % (float(clock),) + code
    e = dict(os.environ)
    e.pop("PYTHONPATH", None)
    # bytecode goes to a scratch cache outside the repository (nothing is written into /repo,
    # and a fresh process does not recompile 16k lines each time)
    e.pop("PYTHONDONTWRITEBYTECODE", None)
    e["PYTHONPYCACHEPREFIX"] = os.path.join(tempfile.gettempdir(), "vmon-pycache-%d" % os.getuid())
    if env:
        e.update(env)
    p = subprocess.run([sys.executable] + list(pyflags) + ["-c", code] + list(argv), input=stdin_text.encode(),
                       capture_output=True, cwd=cwd, env=e, timeout=timeout)
    return Outcome(p.returncode, p.stdout.decode("utf-8", "replace"),
                   p.stderr.decode("utf-8", "replace"), None)

"""Shared machinery of the semantic properties (C01-C03, C08): build a formula with
the real generator, decode its variable names, compare its exact model set with
the set of reference objects."""
import itertools

from . import tt
from .refmodels.names import atoms_of, by_template, NameDecodeError, eval_formula

CAP = {"quick": 18, "thorough": 23}


def formula_classes():
    from cnfgen.formula.cnf import CNF
    from cnfgen.formula.opb import OPB
    return {"CNF": CNF, "OPB": OPB}


# ---------------------------------------------------------------- graphs
def pairs(n):
    return [(u, v) for u in range(1, n + 1) for v in range(u + 1, n + 1)]


def simple_graph(n, mask, as_nx=False):
    from cnfgen.graphs import Graph
    E = [e for i, e in enumerate(pairs(n)) if (mask >> i) & 1]
    if as_nx == "duck":
        from . import ducks
        return ducks.computed_graph(n, E), E
    if as_nx == "nx-mixed":
        # labels that cannot be sorted (numbers, strings and tuples mixed): the documented conversion then numbers the
        # vertices in listing order, so vertex v is the v-th node added -- whatever order the sortable ones are in
        import networkx
        G = networkx.Graph()
        # (numbers that start in order, then one out of order, then something no number compares with: a sort that
        # gives up half-way would leave them rearranged)
        pool = [4, 9, 6, 1, 8, 3, 12, 5, 10, 2]
        lab = lambda v: "z" if v == n else (1, 2) if v == n - 3 and n >= 6 else pool[v - 1] if v <= len(pool) else 100 - v
        G.add_nodes_from(lab(v) for v in range(1, n + 1))
        G.add_edges_from((lab(v), lab(u)) for u, v in reversed(E))
        return G, E
    if as_nx:
        # a networkx graph whose labels are not 1..n and whose insertion order is not the label order:
        # the documented conversion numbers the vertices by *sorted* label, so vertex v is the v-th label
        import networkx
        G = networkx.Graph()
        lab = lambda v: 10 * v + 5
        G.add_nodes_from(lab(v) for v in range(n, 0, -1))
        G.add_edges_from((lab(v), lab(u)) for u, v in reversed(E))
        return G, E
    G = Graph(n)
    for e in E:
        G.add_edge(*e)
    return G, E


def bipartite_graph(L, R, mask, as_nx=False):
    from cnfgen.graphs import BipartiteGraph
    allp = [(u, v) for u in range(1, L + 1) for v in range(1, R + 1)]
    E = [e for i, e in enumerate(allp) if (mask >> i) & 1]
    if as_nx == "duck":
        from . import ducks
        return ducks.computed_bipartite(L, R, E), E
    if as_nx:
        import networkx
        G = networkx.Graph()
        # the documented conversion numbers each side in node insertion order; labels, the relative order of
        # the two sides and the orientation in which an edge is listed mean nothing
        variant = (mask + L + R) % 4
        if variant == 0:
            G.add_nodes_from(range(1, L + 1), bipartite=0)
            G.add_nodes_from(range(L + 1, L + R + 1), bipartite=1)
            G.add_edges_from((u, v + L) for u, v in E)
            return G, E
        left = lambda u: "l%d" % (L - u) if variant == 3 else 1000 - 7 * u
        right = lambda v: "r%d" % v if variant == 3 else 3 * v
        if variant == 1:                        # right side first
            for v in range(1, R + 1):
                G.add_node(right(v), bipartite=1)
            for u in range(1, L + 1):
                G.add_node(left(u), bipartite=0)
        else:                                   # interleaved
            for i in range(1, max(L, R) + 1):
                if i <= R:
                    G.add_node(right(i), bipartite=1)
                if i <= L:
                    G.add_node(left(i), bipartite=0)
        for k, (u, v) in enumerate(reversed(E)):
            if k % 3:
                G.add_edge(right(v), left(u))
            else:
                G.add_edge(left(u), right(v))
        return G, E
    B = BipartiteGraph(L, R)
    for e in E:
        B.add_edge(*e)
    return B, E


def rep_tag(as_nx):
    """How a graph argument was given, for labels: '', ',nx' (networkx object) or ',user class' (vmon/ducks.py)."""
    return ",user class" if as_nx == "duck" else ",nx with unsortable labels" if as_nx == "nx-mixed" else ",nx" if as_nx else ""


def count_rep(ctx, as_nx):
    if as_nx == "duck":
        ctx.count("user_class_inputs")
    elif as_nx == "nx-mixed":
        ctx.count("networkx_inputs_with_unsortable_labels")
    elif as_nx:
        ctx.count("networkx_inputs")


def dag(n, mask, as_nx=False):
    """DAG in topological order: edges u->v with u<v selected by mask."""
    from cnfgen.graphs import DirectedGraph
    E = [e for i, e in enumerate(pairs(n)) if (mask >> i) & 1]
    if as_nx == "duck":
        from . import ducks
        return ducks.computed_dag(n, E), E
    D = DirectedGraph(n)
    for e in E:
        D.add_edge(*e)
    return D, E


# ---------------------------------------------------------------- judging
def build(ctx, fam, desc, fn, *a, **kw):
    """Call a generator; returns the formula or None (after recording why)."""
    st, F = ctx.call(fn, *a, **kw)
    if st == "exc":
        return None, F
    return F, None


def decode(ctx, fam, desc, F):
    try:
        return by_template(atoms_of(F))
    except NameDecodeError as e:
        ctx.count("names_not_decodable")
        ctx.problems.append({"kind": "names-not-decodable", "case": ctx.case, "traceback": "%s %s: %s" % (fam, desc, e)})
        return None


def name_of(F, v):
    labs = list(F.all_variable_labels())
    return labs[v - 1] if 0 < v <= len(labs) else "x%d" % v


def describe(F, assignment_lits):
    return [("" if l > 0 else "~") + name_of(F, abs(l)) for l in assignment_lits]


def check_models(ctx, fam, desc, F, true_sets, key, keep=None, nontrivial=True, extra=None):
    """Exact comparison: models(F) (projected on `keep` if given) == {objects}.

    true_sets: iterable of iterables of variable ids that are true in the object's
    assignment (all other kept variables false).
    """
    n = F.number_of_variables()
    got = tt.models_of(F)
    if keep is not None:
        got = tt.project(n, got, keep)
        ctx.count("projected_cases")
    exp = tt.from_assignments(true_sets)
    ctx.count("exact_cases")
    ctx.count("assignments_decided", 1 << n)
    nobj = tt.count(exp)
    if nobj:
        ctx.count("satisfiable_cases")
    else:
        ctx.count("unsatisfiable_cases")
    if got != exp:
        d = tt.first_difference(n, got, exp)
        kind = "satisfied-by-non-object" if d["in_first"] else "object-not-a-model"
        if bool(got) != bool(exp):
            kind += "+satisfiability-differs"
        ctx.violation("%s:models:%s" % (fam, kind),
                      "%s: formula has %d %smodels, the reference has %d objects; witness %s"
                      % (desc, tt.count(got), "projected " if keep is not None else "", nobj,
                         describe(F, d["assignment"])),
                      formula_clauses=len(F), variables=n)
    s = {"family": fam, "case": desc, "variables": n, "objects": nobj}
    if extra:
        s.update(extra)
    ctx.judged(key, nontrivial=nontrivial, sample=s)
    return got == exp


def check_sampled(ctx, fam, desc, F, good, bad, key):
    """Beyond the cap: witness objects must satisfy, one-condition-broken near misses must falsify."""
    ok = True
    values = None
    if len(F) > 2000:
        # a large formula: all assignments in one pass over the clauses (one bit per assignment)
        from .refmodels.names import eval_many
        pool = [set(t) for t in good] + [set(t) for t, _ in bad]
        for lo in range(0, len(pool), 64):
            values = (values or []) + eval_many(F, pool[lo:lo + 64])
    vals = iter(values) if values is not None else None
    for t in good:
        ctx.count("sampled_witnesses")
        if not (next(vals) if vals is not None else eval_formula(F, t)):
            ctx.violation("%s:sampled:object-not-a-model" % fam, "%s: a reference object falsifies the formula: %s"
                          % (desc, sorted(name_of(F, v) for v in t)[:40]))
            ok = False
            break
    if values is not None:
        vals = iter(values[len(good):])
    for t, why in bad:
        ctx.count("sampled_near_misses")
        if (next(vals) if vals is not None else eval_formula(F, t)):
            ctx.violation("%s:sampled:satisfied-by-non-object" % fam,
                          "%s: a non-object (%s) satisfies the formula: %s"
                          % (desc, why, sorted(name_of(F, v) for v in t)[:40]))
            ok = False
            break
    ctx.count("sampled_cases")
    ctx.judged(key, sample={"family": fam, "case": desc, "variables": F.number_of_variables(), "mode": "sampled"})
    return ok


def same_in_optimized_interpreter(ctx, fam, desc, expr, seed, F):
    """`expr` (an expression over the name g = the cnfgen package, evaluated after random.seed(seed)) built in a child
    interpreter started with -O must be the formula F built here: statements compiled away by -O (assert, if __debug__)
    are no part of a generator.  Used where the reference for a family does not cover every clause."""
    import hashlib
    import subprocess
    import sys
    from . import REPO
    code = ("import sys, random, hashlib, warnings; warnings.simplefilter('ignore'); sys.path.insert(0, %r); import cnfgen as g; "
            "from cnfgen.formula.cnf import CNF; from cnfgen.formula.opb import OPB; random.seed(%r); F = %s; "
            "print(sys.flags.optimize, F.number_of_variables(), len(F), "
            "hashlib.sha1(repr([list(c) for c in F]).encode()).hexdigest(), hashlib.sha1(repr(list(F.all_variable_labels())).encode()).hexdigest())"
            % (REPO, seed, expr))
    try:
        p = subprocess.run([sys.executable, "-O", "-c", code], capture_output=True, text=True, timeout=300)
    except subprocess.TimeoutExpired:
        ctx.problems.append({"kind": "spawn-failed", "case": ctx.case, "traceback": "python -O child timed out"})
        return
    ctx.count("built_again_under_python_O")
    if p.returncode != 0:
        ctx.violation("%s:python-O:raises" % fam, "%s: in an interpreter started with -O: %s" % (desc, p.stderr.strip().splitlines()[-1:] or p.stderr[-200:]))
        return
    opt, nv, m, hc, hl = p.stdout.split()
    mine = (str(F.number_of_variables()), str(len(F)), hashlib.sha1(repr([list(c) for c in F]).encode()).hexdigest(),
            hashlib.sha1(repr(list(F.all_variable_labels())).encode()).hexdigest())
    if opt == "0":
        ctx.problems.append({"kind": "harness-error", "case": ctx.case, "traceback": "the -O child did not run optimized"})
    elif (nv, m, hc, hl) != mine:
        ctx.violation("%s:python-O:another-formula" % fam, "%s: an interpreter started with -O builds %s variables / %s clauses%s, this one %s / %s"
                      % (desc, nv, m, "" if (nv, m) != mine[:2] else " (other clauses or names)", mine[0], mine[1]))


# ---------------------------------------------------------------- histories on one graph object
def same_formula(A, B):
    return (A.number_of_variables() == B.number_of_variables() and list(A.all_variable_labels()) == list(B.all_variable_labels())
            and [list(c) for c in A] == [list(c) for c in B])


def graph_history_check(ctx, fam, label, gen, r, n=6, rounds=3, max_edges=None):
    """A generator's output must be a function of the graph's *current* state: build a formula, then edit the same
    Graph object (swap an edge: vertex and edge counts unchanged; switch two edges: degrees unchanged too; drop an
    edge; grow it by two vertices in one call and connect them) and build again; the result must equal the formula of a freshly built graph with the same edges."""
    from cnfgen.graphs import Graph
    allp = pairs(n)
    E = set(r.sample(allp, r.randint(2, max(2, min(len(allp) // 2, max_edges or len(allp))))))
    G = Graph(n)
    for e in sorted(E):
        G.add_edge(*e)
    st, _ = ctx.call(gen, G)
    if st == "exc":
        return
    for step in range(rounds):
        kind = r.choice(["swap", "swap", "grow", "switch", "switch", "drop", "refused-batch", "refused-batch", "ignored-removal"])
        sw = None
        free = sorted(set(allp) - E)
        if kind == "refused-batch" and len(free) >= 2:
            # a batch of insertions that is refused half-way, the caller survives the error: whatever the object then
            # reports through has_edge is its edge set, and every view / every family must agree with it
            batch = r.sample(free, min(len(free), r.randint(2, 4)))
            batch.sort(key=lambda e: (-e[1], -e[0]))
            bad = r.choice([(n + 3, 1), (1, 1), (0, 2), (2, n + 1)])
            batch = [(v, u) if r.random() < 0.5 else (u, v) for u, v in batch]
            try:
                G.add_edges_from(batch + [bad])
                refused = False
            except Exception:       # noqa: BLE001
                refused = True
            E = {(u, v) for (u, v) in allp if G.has_edge(u, v)}
            what = "add_edges_from(%r) [%s]" % (batch + [bad], "refused" if refused else "accepted")
            ctx.count("refused_batch_edits")
        elif kind == "ignored-removal":
            # removals of things that are not edges (also with endpoints that are not vertices) change nothing
            tried = []
            for (u, v) in [(-n, r.randint(1, n)), (r.randint(1, n), -1), (0, 1), (n + 1, 1)] + free[:2] + [(-1, -2), (-r.randint(1, n), r.randint(1, n))]:
                try:
                    G.remove_edge(u, v)
                except Exception:   # noqa: BLE001
                    pass
                tried.append((u, v))
            what = "remove_edge of the non-edges %r" % (tried,)
            ctx.count("ignored_removal_edits")
        elif kind == "switch":
            # degree-preserving: ab, cd -> ac, bd keeps the vertex count, the edge count and every degree
            for _ in range(40):
                if len(E) < 2:
                    break
                (a, b), (c, d) = r.sample(sorted(E), 2)
                if r.random() < 0.5:
                    c, d = d, c
                new2 = {tuple(sorted((a, c))), tuple(sorted((b, d)))}
                if len({a, b, c, d}) == 4 and not (new2 & E):
                    sw = ((a, b), tuple(sorted((c, d))), new2)
                    break
        if kind == "refused-batch" and len(free) >= 2 or kind == "ignored-removal":
            pass
        elif kind == "switch" and sw:
            for e in sw[:2]:
                G.remove_edge(*e)
            for e in sorted(sw[2]):
                G.add_edge(*e)
            E = (E - set(sw[:2])) | sw[2]
            what = "remove_edge%r; remove_edge%r; add_edge %r (degrees unchanged)" % (sw[0], sw[1], sorted(sw[2]))
        elif kind == "drop" and len(E) > 1:
            e = r.choice(sorted(E))
            G.remove_edge(*e)
            E = E - {e}
            what = "remove_edge%r" % (e,)
        elif kind in ("swap", "switch", "drop") and E and len(E) < len(allp):
            e = r.choice(sorted(E))
            f = r.choice(sorted(set(allp) - E))
            G.remove_edge(*e)
            G.add_edge(*f)
            E = (E - {e}) | {f}
            what = "remove_edge%r; add_edge%r" % (e, f)
        else:
            G.update_vertex_number(n + 2)
            new = [(r.randint(1, n), n + 1), (r.randint(1, n), n + 2), (n + 1, n + 2)][:r.randint(1, 3)]
            for e in new:
                G.add_edge(*e)
            E |= set(new)
            n += 2
            allp = pairs(n)
            what = "update_vertex_number(%d); add_edge %r" % (n, new)
        fresh = Graph(n)
        for e in sorted(E):
            fresh.add_edge(*e)
        st2, F2 = ctx.call(gen, G)
        st3, F3 = ctx.call(gen, fresh)
        ctx.count("graph_object_histories")
        if st2 != st3:
            ctx.violation("%s:graph-history:outcome-differs" % fam, "%s after %s: edited object -> %s, fresh graph with the same edges -> %s"
                          % (label, what, st2, st3))
            return
        if st2 == "ok" and not same_formula(F2, F3):
            ctx.violation("%s:graph-history:formula-of-an-earlier-state" % fam,
                          "%s after %s on the same Graph object: the formula differs from the one built on a fresh graph with the "
                          "same %d edges" % (label, what, len(E)))
            return
        ctx.judged(("history", fam, label, step, tuple(sorted(E))), sample={"family": fam, "history": what, "edges": sorted(E)[:10]})


import contextlib as _contextlib


@_contextlib.contextmanager
def few_descriptors_left(headroom=40):
    """Runs the body in a process that may open only `headroom` more files than it has open now (soft RLIMIT_NOFILE):
    the situation of a long-running program after many thousands of calls, if any call forgets to close something.
    A library that closes what it opens never notices."""
    import os
    import resource
    soft, hard = resource.getrlimit(resource.RLIMIT_NOFILE)
    try:
        now = [int(x) for x in os.listdir("/proc/self/fd")]
        top = max(now) + 1
    except OSError:
        top = 64
    resource.setrlimit(resource.RLIMIT_NOFILE, (min(top + headroom, hard if hard != resource.RLIM_INFINITY else top + headroom), hard))
    try:
        yield
    finally:
        resource.setrlimit(resource.RLIMIT_NOFILE, (soft, hard))


def open_descriptors():
    import os
    try:
        return len(os.listdir("/proc/self/fd"))
    except OSError:
        return -1


def at_the_address_of(dead_id, make, tries=4000):
    """Creates objects with make() until the interpreter places one at the address `dead_id` of an object that has
    been collected; returns it (or None).  The others are kept alive meanwhile so that every try gets a new address."""
    keep = []
    for _ in range(tries):
        o = make()
        if id(o) == dead_id:
            return o
        keep.append(o)
    return None

import sys
from . import use_repo
use_repo()
from .core import worker_main
worker_main(sys.argv[1:])

"""./check <PROPERTY> [--tier quick|thorough] [--replay FILE] [--jobs N]"""
import argparse
import os
import sys
from . import use_repo
use_repo()
from .core import run_property


def main():
    ap = argparse.ArgumentParser()
    ap.add_argument("property")
    ap.add_argument("--tier", default=os.environ.get("VERIF_TIER", "quick"),
                    choices=["quick", "thorough"])
    ap.add_argument("--replay")
    ap.add_argument("--jobs", type=int)
    a = ap.parse_args()
    try:
        seed = int(os.environ.get("VERIF_SEED", "0") or 0)
    except ValueError:
        seed = 0
    sys.exit(run_property(a.property, a.tier, seed, jobs=a.jobs, replay=a.replay))


main()

#!/venv/bin/python -SE
"""Stand-in SAT solver for property C20 (pure stdlib, no site, starts in ~10 ms).

vmon/props/C20.py byte-compiles this file into a scratch directory and puts a
four-line /bin/sh launcher under every solver name on a scratch PATH; the
launcher answers the `--help` installation probe by itself (1 ms) and otherwise
execs `python -SE fakesolver.pyc "$@"` with FAKESAT_NAME set to the name it was
started under.  (Run directly, the file takes its name from argv[0].)  The name
and these environment variables decide how it behaves:

  FAKESAT_LOG    side file; one `repr(dict)` line per run is appended BEFORE any
                 output is produced.  It is the ground truth for "what the
                 solver found" (decision, model printed, whether an answer was
                 given at all, what formula arrived, how it was invoked).
  FAKESAT_CONV   "name=conv,...,*=conv" with conv in
                    stdin    DIMACS on stdin, `s`/`v` lines on stdout
                    filein   DIMACS file as last argument, `s`/`v` lines on stdout
                    fileout  minisat: <input file> <result file>; SAT/UNSAT in the result file
  FAKESAT_SHAPE  "key=value;..." the shape of the output, see `emit_*`.
  FAKESAT_SEED   integer for the private generator (shuffling, noise).

`<name> --help` (the installation probe of cnfgen) exits 0 silently and logs
nothing.  The formula is decided by brute force over all assignments.
"""
import os
import sys
import zlib


def lcg(seed):
    state = [(seed * 2862933555777941757 + 3037000493) & (2 ** 64 - 1)]

    def nxt(k):
        state[0] = (state[0] * 6364136223846793005 + 1442695040888963407) & (2 ** 64 - 1)
        return (state[0] >> 33) % k
    return nxt


def parse_kv(text, sep):
    out = {}
    for item in text.split(sep):
        if "=" in item:
            k, v = item.split("=", 1)
            out[k.strip()] = v.strip()
    return out


def canonical_crc(n, clauses):
    text = "%d;" % n + ";".join(" ".join(map(str, c)) for c in clauses)
    return zlib.crc32(text.encode("ascii"))


def parse_dimacs(data):
    """Strict reader: (n, clauses) or raises ValueError."""
    text = data.decode("ascii")
    n = m = None
    clauses, cur = [], []
    for line in text.splitlines():
        s = line.strip()
        if not s or s[0] == "c":
            continue
        if s[0] == "p":
            if n is not None:
                raise ValueError("two headers")
            f = s.split()
            if len(f) != 4 or f[1] != "cnf":
                raise ValueError("bad header %r" % s)
            n, m = int(f[2]), int(f[3])
            if n < 0 or m < 0:
                raise ValueError("negative header")
            continue
        if n is None:
            raise ValueError("clause before header")
        for tok in s.split():
            lit = int(tok)
            if lit == 0:
                clauses.append(tuple(cur))
                cur = []
            else:
                if abs(lit) > n:
                    raise ValueError("literal %d out of range" % lit)
                cur.append(lit)
    if n is None:
        raise ValueError("no header")
    if cur:
        raise ValueError("unterminated clause")
    if len(clauses) != m:
        raise ValueError("%d clauses, header says %d" % (len(clauses), m))
    return n, clauses


def decide(n, clauses, pick):
    """(True, model) / (False, None); `pick` = 'lo:k' or 'hi:k' selects the k-th
    model met when counting assignments upwards / downwards."""
    uniq = sorted(set(clauses), key=len)
    if any(len(c) == 0 for c in uniq):
        return False, None
    side, _, k = pick.partition(":")
    k = int(k or 0)
    if n > 18:
        # large inputs are planted: every variable is forced by a unit clause (or two units clash)
        forced = {}
        for c in uniq:
            if len(c) == 1:
                if forced.get(abs(c[0]), c[0]) != c[0]:
                    return False, None
                forced[abs(c[0])] = c[0]
        if len(forced) == n:
            true = set(forced.values())
            if all(any(l in true for l in c) for c in uniq):
                return True, [forced[v] for v in range(1, n + 1)]
            return False, None
        raise ValueError("too many variables for brute force and not planted")
    comp = [tuple((abs(l) - 1, 1 if l > 0 else 0) for l in c) for c in uniq]
    order = range(1 << n) if side != "hi" else range((1 << n) - 1, -1, -1)
    found, seen = None, 0
    for a in order:
        ok = True
        for c in comp:
            for v, s in c:
                if (a >> v) & 1 == s:
                    break
            else:
                ok = False
                break
        if ok:
            found = a
            seen += 1
            if seen > k:
                break
    if found is None:
        return False, None
    return True, [(v if (found >> (v - 1)) & 1 else -v) for v in range(1, n + 1)]


NOISE = ["WARNING: for repeatability, setting FPU to use double precision",
         "Segmentation fault (core dumped)", "1 -2 3 0", "Parse time: 0.00 s", "ERROR! out of memory",
         "|  Number of variables:  12  |", "restarts              : 1", "java.lang.OutOfMemoryError: heap",
         "   indented text", "Usage: solver [options] <input>"]
COMMENTS = ["c", "c fake solver", "c  restarts 3  conflicts 17", "c reading DIMACS", "c --- [ result ] ---",
            "c\t tab", "c v is the model prefix, s the status prefix"]


def model_lines(model, sh, rnd):
    lits = list(model)
    if sh.get("shuffle") == "1":
        for i in range(len(lits) - 1, 0, -1):
            j = rnd(i + 1)
            lits[i], lits[j] = lits[j], lits[i]
    per = int(sh.get("per", "0"))
    if per <= 0:
        chunks = [lits] if lits else []
    else:
        chunks = [lits[i:i + per] for i in range(0, len(lits), per)]
    zero = sh.get("zero", "same")
    if zero == "same":
        if chunks:
            chunks[-1] = chunks[-1] + [0]
        else:
            chunks = [[0]]
    elif zero == "own":
        chunks.append([0])
    return chunks


def emit_dimacs(dec, model, sh, rnd):
    """Lines of a conforming DIMACS answer on stdout."""
    comments = sh.get("comments", "none")
    sline = "s SATISFIABLE" if dec else "s UNSATISFIABLE"
    vl = ["v " + " ".join(map(str, ch)) for ch in model_lines(model, sh, rnd)] if dec else []
    body = [sline] + vl if sh.get("order", "first") == "first" else vl + [sline]
    if sh.get("decoy") == "1":
        wrong = "UNSATISFIABLE" if dec else "SATISFIABLE"
        body = ["c s %s is what the other kind of instance gets" % wrong, "c v 1 -1 2 0"] + body + \
               ["c s %s" % wrong, "c SATISFIABLE UNSATISFIABLE UNKNOWN"]
    if comments in ("inter", "all"):
        mixed = []
        for i, l in enumerate(body):
            if i:
                mixed.append(COMMENTS[rnd(len(COMMENTS))])
            mixed.append(l)
        body = mixed
    if comments in ("head", "all"):
        body = [COMMENTS[rnd(len(COMMENTS))] for _ in range(1 + rnd(3))] + body
    if comments in ("tail", "all"):
        body = body + [COMMENTS[rnd(len(COMMENTS))] for _ in range(1 + rnd(3))]
    if sh.get("blank") == "1":
        out = []
        for l in body:
            if rnd(3) == 0:
                out.append("")
            out.append(l)
        body = out + [""]
    return body


def emit_resultfile(dec, model, sh, rnd):
    """Text of a conforming minisat result file."""
    if not dec:
        return "UNSAT\n" if sh.get("eol", "1") == "1" else "UNSAT"
    rows = [" ".join(map(str, ch)) for ch in model_lines(model, sh, rnd)]
    text = "SAT\n" + "\n".join(rows)
    return text + ("\n" if sh.get("eol", "1") == "1" else "")


def minisat_stdout(dec, rnd):
    """What minisat prints on its standard output (not part of the convention)."""
    rows = ["============================[ Problem Statistics ]=============================",
            "|  Number of variables:             7                                         |",
            "restarts              : %d" % (1 + rnd(4)), "conflicts             : %d" % rnd(50),
            "s is not a status line here", "v is not a model line here", "", "SATISFIABLE" if dec else "UNSATISFIABLE"]
    return rows


def main():
    argv = sys.argv
    name = os.environ.get("FAKESAT_NAME") or os.path.basename(argv[0])
    args = argv[1:]
    if args == ["--help"]:
        return 0
    sh = parse_kv(os.environ.get("FAKESAT_SHAPE", ""), ";")
    convs = parse_kv(os.environ.get("FAKESAT_CONV", ""), ",")
    conv = convs.get(name, convs.get("*", "stdin"))
    rnd = lcg(int(os.environ.get("FAKESAT_SEED", "0") or 0))
    kind = sh.get("kind", "answer")
    flags = [a for a in args if a.startswith("-")]
    files = [a for a in args if not a.startswith("-")]
    rec = {"name": name, "conv": conv, "flags": flags, "files": files, "kind": kind, "n": None, "m": None,
           "crc": None, "clauses": None, "dec": None, "model": None, "answered": "none", "err": None,
           "argv_tail": args[-2:], "pid": os.getpid()}

    def log():
        path = os.environ.get("FAKESAT_LOG")
        if path:
            fd = os.open(path, os.O_WRONLY | os.O_APPEND | os.O_CREAT, 0o600)
            try:
                os.write(fd, (repr(rec) + "\n").encode("ascii", "backslashreplace"))
            finally:
                os.close(fd)

    out = sys.stdout.buffer
    need = {"stdin": 0, "filein": 1, "fileout": 2}[conv]
    if len(files) != need or args[len(args) - need:] != files:
        rec["err"] = "usage: %s convention wants %d trailing file argument(s), got %r" % (conv, need, args)
        log()
        out.write(b"c usage error\n")
        return 2
    if kind == "early":                       # dies before looking at its input
        log()
        try:
            sys.stdin.close()
        except Exception:
            pass
        return 1
    early = None
    if conv == "stdin" and sh.get("early", "0") != "0":
        # a solver that answers as soon as it meets an empty clause, and leaves without reading the rest of its input
        buf = b""
        while len(buf) < 32768 and b"\n0\n" not in buf:
            chunk = os.read(0, 4096)
            if not chunk:
                break
            buf += chunk
        head = [l.split() for l in buf.decode("ascii", "replace").splitlines() if l.startswith("p cnf")]
        if b"\n0\n" in buf and head and len(head[0]) == 4:
            early = (int(head[0][2]), int(head[0][3]))
            try:
                os.close(0)
            except OSError:
                pass
    try:
        if early is not None:
            n, clauses = early[0], [()]
        else:
            data = (buf if conv == "stdin" and sh.get("early", "0") != "0" else b"") + \
                (sys.stdin.buffer.read() if conv == "stdin" else open(files[0], "rb").read())
            n, clauses = parse_dimacs(data)
    except Exception as e:                    # noqa: BLE001
        rec["err"] = "input: %r" % (e,)
        log()
        out.write(b"c cannot read the input\n")
        return 3
    rec["n"], rec["m"], rec["crc"] = n, len(clauses), canonical_crc(n, clauses)
    if early is not None:
        rec["m"], rec["crc"], rec["left_early"] = early[1], None, True       # (it has not seen the whole formula)
    if len(clauses) <= 60:
        rec["clauses"] = [list(c) for c in clauses]
    dec, model = decide(n, clauses, sh.get("pick", "lo:0"))
    rec["dec"] = "SAT" if dec else "UNSAT"
    rec["model"] = model
    stdcode = 10 if dec else 20
    code = stdcode if sh.get("exit", "std") == "std" else int(sh.get("exit"))
    result_text = None            # fileout: content of the result file (None: leave it alone)
    lines = []                    # stdout
    raw = None                    # stdout as bytes, overrides lines

    proper = "sat" if dec else "unsat"
    if kind == "answer":
        rec["answered"] = proper
        if conv == "fileout":
            result_text = emit_resultfile(dec, model, sh, rnd)
            lines = minisat_stdout(dec, rnd) if sh.get("stdout", "1") == "1" else []
        else:
            lines = emit_dimacs(dec, model, sh, rnd)
    elif kind == "unknown":
        word = sh.get("word", "UNKNOWN")
        if conv == "fileout":
            result_text = "INDET\n"
            lines = ["INDETERMINATE"]
        else:
            lines = ["c interrupted", "s " + word, "c bye"]
        code = 0
    elif kind == "noanswer":
        # a model but no status: nothing was answered
        if conv == "fileout":
            result_text = (" ".join(map(str, (model or []) + [0])) + "\n")
            lines = ["SATISFIABLE" if dec else "UNSATISFIABLE"]
        else:
            lines = ["c no status line follows"] + (["v " + " ".join(map(str, (model or []) + [0]))])
        code = 0
    elif kind == "silent":
        pass
    elif kind == "garbage":
        g = sh.get("g", "noise")
        good = emit_dimacs(dec, model, sh, rnd) if conv != "fileout" else None
        junk = [NOISE[rnd(len(NOISE))] for _ in range(2 + rnd(3))]
        if g == "noise":                       # a conforming answer wrapped in unprefixed chatter
            rec["answered"] = proper
            if conv == "fileout":
                result_text = emit_resultfile(dec, model, sh, rnd)
                lines = junk
            else:
                lines = junk[:1] + good + junk[1:]
        elif g == "junkonly":
            if conv == "fileout":
                result_text = "\n".join(junk) + "\n"
            else:
                lines = junk
        elif g == "bare-s":                    # a status line without a status
            if conv == "fileout":
                result_text = "\n"
            else:
                lines = ["c about to answer", "s"]
        elif g == "bare-s-after":              # a conforming answer, then a stray 's'
            rec["answered"] = proper
            if conv == "fileout":
                result_text = emit_resultfile(dec, model, sh, rnd) + "\n\n"
            else:
                lines = good + ["s"]
        elif g == "oneword":                   # unprefixed chatter whose line starts with s
            if conv == "fileout":
                result_text = "solving\n"
            else:
                lines = ["solving", "c gave up"]
        elif g == "v-nonint":
            rec["answered"] = proper
            if conv == "fileout":
                result_text = emit_resultfile(dec, model, dict(sh, eol="1"), rnd) + "x\n"
            else:
                lines = good + ["version 1.0"]
        elif g == "nonascii":                  # conforming answer, comment not in ASCII
            rec["answered"] = proper
            if conv == "fileout":
                result_text = emit_resultfile(dec, model, sh, rnd)
                raw = "|  Durée : 0.0 s  |\n".encode("utf-8")
            else:
                raw = ("c démarrage ©\n" + "\n".join(good) + "\n").encode("utf-8")
        elif g == "nonascii-result":
            if conv == "fileout":
                result_text = "S\u00c4T\n1 0\n"
            else:
                raw = b"\xff\xfe\x00s\n"
        elif g == "binary":
            raw = bytes(rnd(256) for _ in range(40))
            if conv == "fileout":
                result_text = ""
        code = int(sh.get("exit")) if sh.get("exit", "std") != "std" else code
    else:
        rec["err"] = "unknown shape kind %r" % kind
    if kind in ("silent", "unknown", "noanswer") and sh.get("exit", "std") != "std":
        code = int(sh.get("exit"))
    elif kind == "silent":
        code = 1
    log()
    if result_text is not None:
        how = sh.get("replace", "0")
        if how == "rename":                      # written next to the target, then moved over it
            with open(files[1] + ".part", "wb") as f:
                f.write(result_text.encode("utf-8"))
            os.replace(files[1] + ".part", files[1])
        elif how == "unlink":                    # the target is removed and created again
            try:
                os.unlink(files[1])
            except OSError:
                pass
            with open(files[1], "wb") as f:
                f.write(result_text.encode("utf-8"))
        else:
            with open(files[1], "wb") as f:
                f.write(result_text.encode("utf-8"))
    if raw is None:
        raw = ("\n".join(lines) + "\n").encode("ascii") if lines else b""
    if sh.get("stderr", "0") != "0":
        # diagnostics on the other stream: they are not the solver's answer, whatever they look like
        other = "UNSATISFIABLE" if dec else "SATISFIABLE"
        wrong = " ".join(str(-v) for v in (model or [1])) + " 0"
        chatter = ["solved in 0.00 seconds", "version 1.0", "s " + other, "v " + wrong, "s", "v x"]
        k = int(sh.get("stderr"))
        err = sys.stderr.buffer
        err.write(("\n".join(chatter[:2] if k == 1 else chatter) + "\n").encode("ascii"))
        err.flush()
    out.write(raw)
    out.flush()
    return code


if __name__ == "__main__":
    sys.exit(main())

"""Truth-table engine: exact model sets of CNF and pseudo-Boolean formulas.

The assignment space of n variables is the set of bit positions 0 .. 2^n-1 of one
Python integer; position a encodes the assignment in which variable i is true
iff bit (i-1) of a is set.  Shares no code with cnfgen.
"""
import itertools
import random
from functools import lru_cache


@lru_cache(maxsize=64)
def space(n):
    """(full, [T_1..T_n]) for n variables."""
    size = 1 << n
    full = (1 << size) - 1
    masks = []
    for i in range(n):
        half = 1 << i
        m = ((1 << half) - 1) << half      # one period: half zeros, half ones
        width = half * 2
        while width < size:
            m |= m << width
            width *= 2
        masks.append(m)
    return full, masks


def lit_mask(n, lit):
    full, masks = space(n)
    m = masks[abs(lit) - 1]
    return m if lit > 0 else full ^ m


def models_cnf(n, clauses):
    full, masks = space(n)
    acc = full
    for cl in clauses:
        c = 0
        for lit in cl:
            if not (isinstance(lit, int) and 1 <= abs(lit) <= n):
                raise LiteralOutOfRange(lit, n)
            m = masks[abs(lit) - 1]
            c |= m if lit > 0 else full ^ m
        acc &= c
        if not acc:
            break
    return acc


class LiteralOutOfRange(Exception):
    """The formula under test mentions a literal outside its n declared variables (the case runner reports it as a
    violation: no property tolerates such a formula)."""
    def __init__(self, lit, n):
        Exception.__init__(self, "literal %r in a formula that declares %d variables" % (lit, n))
        self.lit, self.n = lit, n


def _add_plane(planes, mask, b):
    carry, j = mask, b
    while carry:
        while len(planes) <= j:
            planes.append(0)
        p = planes[j]
        planes[j] = p ^ carry
        carry = p & carry
        j += 1


def models_pb(n, terms, op, degree):
    """Assignments with  sum(c*[lit]) op degree ; c > 0;  op in '>=', '=='."""
    full, masks = space(n)
    planes = []
    for c, lit in terms:
        if c <= 0:
            raise ValueError("bit-sliced adder wants positive coefficients")
        if not (isinstance(lit, int) and 1 <= abs(lit) <= n):
            raise LiteralOutOfRange(lit, n)
        m = masks[abs(lit) - 1]
        if lit < 0:
            m ^= full
        b = 0
        while c:
            if c & 1:
                _add_plane(planes, m, b)
            c >>= 1
            b += 1
    if degree < 0:
        return full if op == ">=" else 0
    top = max(len(planes), degree.bit_length())
    gt, eq = 0, full
    for j in range(top - 1, -1, -1):
        p = planes[j] if j < len(planes) else 0
        if (degree >> j) & 1:
            eq &= p
        else:
            gt |= eq & p
            eq &= full ^ p
    if op == ">=":
        return gt | eq
    if op == "==":
        return eq
    raise ValueError(op)


def models_opb(n, constraints):
    """constraints in cnfgen's in-memory shape [(c,l),...,op,deg]."""
    full, _ = space(n)
    acc = full
    for con in constraints:
        acc &= models_pb(n, con[:-2], con[-2], con[-1])
        if not acc:
            break
    return acc


def models_of(F):
    """Model set of a cnfgen CNF or OPB object (duck-typed on the storage)."""
    n = F.number_of_variables()
    if hasattr(F, "_constraints"):
        return models_opb(n, list(F))
    return models_cnf(n, list(F))


def models_of_n(F, n):
    """Model set over n >= number_of_variables() variables."""
    if hasattr(F, "_constraints"):
        return models_opb(n, list(F))
    return models_cnf(n, list(F))


def count(m):
    return m.bit_count()


def exists(n, m, var):
    """Existential quantification of `var`; result lives on var=0 positions only."""
    full, masks = space(n)
    t = masks[var - 1]
    return (m & (full ^ t)) | ((m & t) >> (1 << (var - 1)))


def project(n, m, keep):
    """Quantify away every variable not in `keep` (result has them at 0)."""
    keep = set(keep)
    for v in range(1, n + 1):
        if v not in keep:
            m = exists(n, m, v)
    return m


def from_assignments(assignments):
    """assignments: iterable of iterables of true variables -> model-set integer."""
    acc = 0
    for a in assignments:
        idx = 0
        for v in a:
            idx |= 1 << (v - 1)
        acc |= 1 << idx
    return acc


def index_of(true_vars):
    idx = 0
    for v in true_vars:
        idx |= 1 << (v - 1)
    return idx


def iter_models(m, limit=None):
    """Yield assignment indices of the set bits (lowest first)."""
    k = 0
    while m:
        low = m & -m
        yield low.bit_length() - 1
        m ^= low
        k += 1
        if limit is not None and k >= limit:
            return


def decode(n, idx):
    """assignment index -> list of literals"""
    return [(v if (idx >> (v - 1)) & 1 else -v) for v in range(1, n + 1)]


def first_difference(n, a, b):
    d = a ^ b
    if not d:
        return None
    idx = (d & -d).bit_length() - 1
    return {"assignment": decode(n, idx), "in_first": bool((a >> idx) & 1),
            "in_second": bool((b >> idx) & 1)}


# ---------------------------------------------------------------------------
# naive evaluators (plain Python) - used for the self check and for tiny cases
# ---------------------------------------------------------------------------
def naive_lit(a, lit):
    v = (a >> (abs(lit) - 1)) & 1
    return v if lit > 0 else 1 - v


def naive_cnf(n, clauses):
    acc = 0
    for a in range(1 << n):
        if all(any(naive_lit(a, l) for l in cl) for cl in clauses):
            acc |= 1 << a
    return acc


def naive_pb_holds(a, terms, op, degree):
    s = sum(c * naive_lit(a, l) for c, l in terms)
    return {">=": s >= degree, "==": s == degree, "<=": s <= degree,
            "<": s < degree, ">": s > degree, "!=": s != degree}[op]


def naive_opb(n, constraints):
    acc = 0
    for a in range(1 << n):
        if all(naive_pb_holds(a, c[:-2], c[-2], c[-1]) for c in constraints):
            acc |= 1 << a
    return acc


_checked = False


def selfcheck(rounds=200):
    """Engine vs naive evaluator on random formulas; raises AssertionError."""
    global _checked
    if _checked:
        return
    r = random.Random(12345)
    for _ in range(rounds):
        n = r.randint(0, 9)
        cls = [[r.choice([-1, 1]) * r.randint(1, n) for _ in range(r.randint(0, 4))]
               for _ in range(r.randint(0, 6))] if n else [[] for _ in range(r.randint(0, 1))]
        assert models_cnf(n, cls) == naive_cnf(n, cls), ("cnf", n, cls)
        cons = []
        for _ in range(r.randint(0, 4) if n else 0):
            k = r.randint(0, 5)
            cons.append([(r.randint(1, 9), r.choice([-1, 1]) * r.randint(1, n)) for _ in range(k)]
                        + [r.choice([">=", "=="]), r.randint(-2, 20)])
        assert models_opb(n, cons) == naive_opb(n, cons), ("opb", n, cons)
        if n:
            v = r.randint(1, n)
            m = models_cnf(n, cls)
            e = exists(n, m, v)
            ref = 0
            for a in range(1 << n):
                if not (a >> (v - 1)) & 1:
                    if (m >> a) & 1 or (m >> (a | 1 << (v - 1))) & 1:
                        ref |= 1 << a
            assert e == ref, ("exists", n, cls, v)
    _checked = True

"""Strict, line-classifying reference reader for DIMACS CNF texts (C06, reused by C18).

Written from the format description ("c" comment lines, one "p cnf <n> <m>" problem
line, clauses = blank-separated integers each terminated by 0); shares no code with
cnfgen.  Two services:

    classify(text) -> Reading        what an arbitrary text denotes and whether a reader
                                     is obliged to accept / reject it
    scan_output(text) -> Layout      line-by-line anatomy of a text that claims to be the
                                     output of a DIMACS *writer* (every line must be a
                                     comment, the problem line, or one clause)

Verdicts of classify():

    "accept"   the text has exactly the shape a writer produces (comment lines starting
               with "c" before the problem line, "p cnf n m", then m lines "l1 .. lk 0",
               every line newline-terminated, plain decimal integers, literals in range):
               it denotes (numvars, clauses) and a reader has no excuse to refuse it.
    "either"   the text denotes (numvars, clauses) under the usual free-form reading, but
               is lexically or structurally unusual (`notes` says how: "+1", "01", CRLF,
               clause over several lines, comment after the problem line, "p dnf", problem
               line after clauses, ...).  A reader may refuse it; if it accepts, the
               result must be (numvars, clauses).
    "reject"   no reading exists under which the text is a consistent formula: `reason`
               is one of no-problem-line, bad-problem-line, garbage-token,
               literal-out-of-range, unterminated-clause, clause-count-mismatch.
    "unknown"  the text contains something on which readers legitimately tokenise
               differently (a lone CR, VT/FF/FS/GS/RS/NEL/LS/PS anywhere (line breaks for some
               readers), control / non-ASCII characters outside comments,
               integers with underscores, conflicting problem lines that both fit, numbers beyond the
               interpreter's conversion limit).  Nothing is demanded beyond internal
               consistency of an accepted result.
"""
import collections
import re

ASCII_WS = " \t\r"
_EXOTIC_BREAK = re.compile("[\x0b\x0c\x1c\x1d\x1e\x85\u2028\u2029]")   # str.splitlines() breaks here, file iteration does not
_PLAIN_INT = re.compile(r"(0|-?[1-9][0-9]*)\Z")
_PLAIN_NAT = re.compile(r"(0|[1-9][0-9]*)\Z")
_DECIMAL = re.compile(r"[+-]?[0-9]+\Z")
_UNDERSCORED = re.compile(r"[+-]?[0-9][0-9_]*\Z")
MAX_DIGITS = 4000          # CPython refuses int(str) beyond 4300 digits by default

Reading = collections.namedtuple("Reading", "verdict numvars clauses reason notes")
Reading.__doc__ = """verdict: accept|either|reject|unknown; numvars/clauses: the denoted formula
(None when rejected / unknown); reason: why rejected / unknown; notes: sorted tuple of oddities."""


class Rejected(ValueError):
    """read() on a text that denotes no formula."""


def _ascii_clean(s):
    return all((" " <= ch <= "~") or ch in ASCII_WS for ch in s)


def _number(tok):
    """('plain'|'odd', value) | ('unknown', why) | ('garbage', None)"""
    if len(tok) > MAX_DIGITS:
        return ("unknown", "huge-integer") if _UNDERSCORED.match(tok) else ("garbage", None)
    if _PLAIN_INT.match(tok):
        return "plain", int(tok)
    if _DECIMAL.match(tok):
        return "odd", int(tok)
    if _UNDERSCORED.match(tok):
        return "unknown", "underscore-integer"
    return "garbage", None


def classify(text):
    """Decide what `text` (a str, as a reader sees it after newline translation) denotes."""
    if not isinstance(text, str):
        raise TypeError("classify() wants the decoded text")
    if re.search(r"\r(?!\n)", text):
        return Reading("unknown", None, None, "lone-carriage-return", ())
    if _EXOTIC_BREAK.search(text):
        return Reading("unknown", None, None, "exotic-line-separator", ())
    notes = set()
    unknown = None
    reject = None
    canonical = True

    def odd(what):
        nonlocal canonical
        canonical = False
        notes.add(what)

    raw_lines = text.split("\n")
    if raw_lines[-1] == "":
        raw_lines.pop()
    elif text:
        odd("no-final-newline")
    problems = []                # the distinct (n, m) declared by well-formed problem lines
    problems_seen = 0
    literals = []                # the token stream of the clause area
    for raw in raw_lines:
        s = raw.strip(ASCII_WS)
        if s == "":
            odd("blank-line")
            continue
        if s[0] == "c":
            if raw[0] != "c":
                odd("indented-comment")
            if len(s) > 1 and s[1] not in ASCII_WS:
                odd("comment-without-blank")
            if problems_seen:
                odd("comment-after-problem-line")
            if "\r" in raw:
                odd("crlf")
            continue
        # a line that carries data
        if not _ascii_clean(raw):
            unknown = unknown or "non-ascii-or-control-outside-comment"
            continue
        if "\r" in raw:
            odd("crlf")
        toks = s.split()
        if s[0] == "p":
            problems_seen += 1
            if problems_seen > 1:
                odd("several-problem-lines")
            if len(toks) != 4:
                reject = reject or "bad-problem-line"
                continue
            kn, vn = _number(toks[2])
            km, vm = _number(toks[3])
            if "unknown" in (kn, km):
                unknown = unknown or (vn if kn == "unknown" else vm)
                continue
            if "garbage" in (kn, km) or vn < 0 or vm < 0:
                reject = reject or "bad-problem-line"
                continue
            if toks[0] != "p" or toks[1] != "cnf":
                odd("problem-line-keyword")
            if not (_PLAIN_NAT.match(toks[2]) and _PLAIN_NAT.match(toks[3])):
                odd("odd-integer")
            if raw != "p cnf %s %s" % (toks[2], toks[3]):
                odd("problem-line-spacing")
            if literals:
                odd("clauses-before-problem-line")
            if (vn, vm) not in problems:
                problems.append((vn, vm))
            continue
        # clause data
        if not problems_seen:
            odd("clauses-before-problem-line")
        vals = []
        for t in toks:
            k, v = _number(t)
            if k == "unknown":
                unknown = unknown or v
            elif k == "garbage":
                reject = reject or "garbage-token"
            else:
                if k == "odd":
                    odd("odd-integer")
                vals.append(v)
        if len(vals) == len(toks):
            if not (vals and vals[-1] == 0 and 0 not in vals[:-1] and raw == " ".join(map(str, vals))):
                odd("free-form-clause-layout")
        literals.extend(vals)

    if unknown:
        return Reading("unknown", None, None, unknown, tuple(sorted(notes)))
    if reject:
        return Reading("reject", None, None, reject, tuple(sorted(notes)))
    if not problems:
        return Reading("reject", None, None, "no-problem-line", tuple(sorted(notes)))
    clauses, cur = [], []
    for v in literals:
        if v == 0:
            clauses.append(tuple(cur))
            cur = []
        else:
            cur.append(v)
    top = max((abs(l) for cl in clauses + [tuple(cur)] for l in cl), default=0)

    def fault(n, m):
        if top > n:
            return "literal-out-of-range"
        if cur:
            return "unterminated-clause"
        if len(clauses) != m:
            return "clause-count-mismatch"
        return None
    # conflicting problem lines: a result is a reading if it is consistent with one of the declarations
    valid = [(n, m) for n, m in problems if fault(n, m) is None]
    if not valid:
        return Reading("reject", None, None, fault(*problems[0]), tuple(sorted(notes)))
    if len(valid) > 1:
        return Reading("unknown", None, None, "conflicting-problem-lines", tuple(sorted(notes)))
    return Reading("accept" if canonical else "either", valid[0][0], clauses, None, tuple(sorted(notes)))


def read(text):
    """(numvars, clauses) of a text with a determined reading; Rejected otherwise."""
    r = classify(text)
    if r.verdict in ("accept", "either"):
        return r.numvars, [list(c) for c in r.clauses]
    raise Rejected(r.reason)


def universal_newlines(text):
    """What a text-mode file hands to a reader: CRLF and lone CR become LF."""
    return text.replace("\r\n", "\n").replace("\r", "\n")


# ---------------------------------------------------------------------------
# anatomy of a writer's output
# ---------------------------------------------------------------------------
Layout = collections.namedtuple("Layout", "comments problems clauses offending unterminated")
Layout.__doc__ = """comments: [(lineno, text)]; problems: [(lineno, n, m)] (n, m None when unparsable);
clauses: [(lineno, tuple)] (lines after the first problem line made of plain integers ending in the only 0);
offending: [(lineno, kind, text)] lines that are neither comment, problem line nor clause
(kind: blank | data-before-problem-line | second-problem-line | malformed-problem-line | not-a-clause);
unterminated: the text does not end with a line break."""


def scan_output(text):
    """Split at LF, CRLF and CR (what any text-mode consumer does) and classify every line."""
    lines = re.split(r"\r\n|\n|\r", text)
    unterminated = lines[-1] != ""
    if not unterminated:
        lines.pop()
    comments, problems, clauses, offending = [], [], [], []
    for no, line in enumerate(lines, 1):
        if line[:1] == "c":
            comments.append((no, line))
        elif line.strip(ASCII_WS) == "":
            offending.append((no, "blank", line))
        elif line[:1] == "p":
            toks = line.split(" ")
            if len(toks) == 4 and toks[0] == "p" and toks[1] == "cnf" and _PLAIN_NAT.match(toks[2]) \
                    and _PLAIN_NAT.match(toks[3]) and len(toks[2]) <= MAX_DIGITS and len(toks[3]) <= MAX_DIGITS:
                if problems:
                    offending.append((no, "second-problem-line", line))
                problems.append((no, int(toks[2]), int(toks[3])))
            else:
                offending.append((no, "malformed-problem-line", line))
        else:
            toks = line.split(" ")
            ok = all(_PLAIN_INT.match(t) and len(t) <= MAX_DIGITS for t in toks)
            vals = [int(t) for t in toks] if ok else []
            if ok and vals[-1] == 0 and 0 not in vals[:-1]:
                if problems:
                    clauses.append((no, tuple(vals[:-1])))
                else:
                    offending.append((no, "data-before-problem-line", line))
            else:
                offending.append((no, "not-a-clause" if problems else "data-before-problem-line", line))
    return Layout(comments, problems, clauses, offending, unterminated)


# ---------------------------------------------------------------------------
# self check: fixed texts with the verdict the format description gives them (the first three are the
# doctest examples of cnfgen/formula/cnfio.py)
# ---------------------------------------------------------------------------
_EXPECT = [
    ("p cnf 4 2\n1 2 -3 0\n-2 4 0\n", "accept", (4, [(1, 2, -3), (-2, 4)])),
    ("p cnf 4 3\n-1 2 -3 0\n-2 -4 0\n2 3 -4 0\n", "accept", (4, [(-1, 2, -3), (-2, -4), (2, 3, -4)])),
    ("p cnf 0 0\n", "accept", (0, [])),
    ("c Hej!\np cnf 2 1\n1 -2 0\n", "accept", (2, [(1, -2)])),
    ("c\nc x: y\np cnf 3 2\n0\n3 0\n", "accept", (3, [(), (3,)])),
    ("p cnf 2 1\n1 -2 0", "either", (2, [(1, -2)])),
    ("p cnf 2 1\r\n1 -2 0\r\n", "either", (2, [(1, -2)])),
    ("p cnf 2 2\n1\n-2 0 2\n0\n", "either", (2, [(1, -2), (2,)])),
    ("p cnf 2 1\nc mid\n+1 -02 0\n", "either", (2, [(1, -2)])),
    ("1 0\np cnf 1 1\n", "either", (1, [(1,)])),
    ("p dnf 1 1\n1 0\n", "either", (1, [(1,)])),
    ("p cnf 1 1\np cnf 1 1\n1 0\n", "either", (1, [(1,)])),
    ("", "reject", "no-problem-line"),
    ("c only\n", "reject", "no-problem-line"),
    ("1 0\n", "reject", "no-problem-line"),
    ("p cnf 2\n", "reject", "bad-problem-line"),
    ("p cnf -1 0\n", "reject", "bad-problem-line"),
    ("p cnf 2 1\n1 x 0\n", "reject", "garbage-token"),
    ("p cnf 2 1\n1 3 0\n", "reject", "literal-out-of-range"),
    ("p cnf 2 1\n-3 0\n", "reject", "literal-out-of-range"),
    ("p cnf 2 1\n1 2\n", "reject", "unterminated-clause"),
    ("p cnf 2 2\n1 2 0\n", "reject", "clause-count-mismatch"),
    ("p cnf 2 0\n1 2 0\n", "reject", "clause-count-mismatch"),
    ("p cnf 2 1\n1 2 0\n%\n0\n", "reject", "garbage-token"),
    ("p cnf 2 1\r1 0\n", "unknown", "lone-carriage-return"),
    ("p cnf 12 1\n1_0 0\n", "unknown", "underscore-integer"),
    ("p cnf 2 1\n\u0661 0\n", "unknown", "non-ascii-or-control-outside-comment"),
    ("c \x0c\np cnf 0 0\n", "unknown", "exotic-line-separator"),
    ("p cnf 1 1\np cnf 2 1\n1 0\n", "unknown", "conflicting-problem-lines"),
]
_checked = False


def selfcheck():
    """Raises AssertionError when the reference no longer gives the fixed texts their verdicts."""
    global _checked
    if _checked:
        return
    for text, verdict, exp in _EXPECT:
        r = classify(text)
        assert r.verdict == verdict, (text, r)
        if verdict in ("accept", "either"):
            assert (r.numvars, r.clauses) == exp, (text, r)
            lay = scan_output(universal_newlines(text))
            if verdict == "accept":
                assert not lay.offending and len(lay.problems) == 1 and lay.problems[0][1:] == (exp[0], len(exp[1])) \
                    and [c for _, c in lay.clauses] == exp[1], (text, lay)
        else:
            assert r.reason == exp, (text, r)
    lay = scan_output("c a\nb\n\np cnf 1 1\n1 0\nx\np cnf 1 1\n")
    assert [k for _, k, _ in lay.offending] == ["data-before-problem-line", "blank", "not-a-clause",
                                                "second-problem-line"], lay
    _checked = True

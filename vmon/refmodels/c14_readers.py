"""Reference readers for the in-house graph formats (kthlist, DIMACS edge, matrix) -- C14.

Written from the format descriptions (www/KTHlistFormat.txt, the DIMACS edge
format, the docstring example of the matrix format), sharing no code with
cnfgen.  A reader answers with one of three verdicts about a text:

    ("graph",  desc)    if the text is accepted, the result must be `desc`
                        (refusing it with ValueError is always allowed)
    ("reject", reason)  no graph is consistent with the text: it must be refused
    ("unclear", why)    the text uses something the descriptions leave open
                        (lenient integer spellings, exotic white space, list
                        continuation lines, ...): only the exception discipline
                        is judged

desc:  simple  -> ("simple", n, frozenset{(u,v) u<v})
       digraph -> ("digraph", n, frozenset{(u,v)})         (dag: same, all u<v)
       bipartite -> ("bipartite", L, R, frozenset{(u,v)})   v counted on the right side
"""
import re

_DEC = re.compile(r"^[+-]?[0-9]+$", re.ASCII)
PLAIN_WS = " \t\n\r"


class Reject(Exception):
    pass


class Unclear(Exception):
    pass


def _int(tok):
    if _DEC.match(tok):
        return int(tok)
    try:
        int(tok)
    except ValueError:
        raise Reject("non-integer")
    raise Unclear("lenient-integer-spelling")     # '1_0', non-ASCII digits ...


def _check_ws(text, comment=None):
    # a comment line runs to the next newline whatever it holds (form feeds, NEL, U+2028 ... are not line ends of a
    # text file); elsewhere such characters make the token structure a matter of taste
    body = text
    if comment is not None:
        body = "\n".join(raw for raw in text.split("\n") if not comment(raw))
    for ch in body:
        if ch.isspace() and ch not in PLAIN_WS:
            raise Unclear("exotic-whitespace")
    if "\r" in text.replace("\r\n", ""):
        raise Unclear("bare-carriage-return")      # line structure depends on the stream


_COMMENT = {"_kthlist": lambda raw: raw[:1] == "c", "_dimacs": lambda raw: raw.lstrip(" \t")[:1] == "c"}


def _verdict(fn, text, gtype):
    try:
        _check_ws(text, _COMMENT.get(fn.__name__))
        return ("graph", fn(text, gtype))
    except Reject as e:
        return ("reject", str(e))
    except Unclear as e:
        return ("unclear", str(e))


# --------------------------------------------------------------------------- kthlist
def _kthlist(text, gtype):
    size = None
    rows = []                       # (left, [neighbours]) in file order
    pending = False                 # previous list lacked its terminator
    for raw in text.split("\n"):
        if raw[:1] == "c":
            continue
        if raw[:1] == "C":
            raise Unclear("uppercase-comment")
        s = raw.strip()
        if not s:
            continue
        if ":" not in s:
            if pending:
                raise Unclear("list-continuation-line")
            if size is not None:
                raise Reject("second-size-line")
            toks = s.split()
            if len(toks) != 1:
                raise Reject("size-line-shape")
            size = _int(toks[0])
            if size < 0:
                raise Reject("negative-size")
            continue
        if pending:
            raise Reject("missing-terminator")
        if size is None:
            raise Reject("vertex-line-before-size")
        parts = s.split(":")
        if len(parts) != 2:
            raise Reject("two-colons")
        lt = parts[0].split()
        if len(lt) != 1:
            raise Reject("left-side-shape")
        left = _int(lt[0])
        right = [_int(t) for t in parts[1].split()]
        if not 1 <= left <= size:
            raise Reject("vertex-out-of-range")
        if not right or right[-1] != 0:
            if any(not 1 <= v <= size for v in right):
                raise Reject("vertex-out-of-range")
            pending = True
            rows.append((left, right))
            continue
        right.pop()
        if any(not 1 <= v <= size for v in right):
            raise Reject("vertex-out-of-range")
        rows.append((left, right))
    if pending:
        raise Reject("missing-terminator")
    if size is None:
        raise Reject("no-size-line")
    if gtype == "simple":
        if any(v == u for u, nb in rows for v in nb):
            raise Reject("self-loop")
        return ("simple", size, frozenset((min(u, v), max(u, v)) for u, nb in rows for v in nb))
    if gtype in ("digraph", "dag"):
        edges = frozenset((v, u) for u, nb in rows for v in nb)
        if gtype == "dag" and any(a >= b for a, b in edges):
            raise Reject("back-edge-under-dag")
        return ("digraph", size, edges)
    L = max([u for u, _ in rows], default=0)
    if any(v <= L for _, nb in rows for v in nb):
        raise Reject("bipartition-violation")
    return ("bipartite", L, size - L, frozenset((u, v - L) for u, nb in rows for v in nb))


def kthlist(text, gtype):
    return _verdict(_kthlist, text, gtype)


def kthlist_last_row_wins(text):
    """What a bipartite reader returns that lets a repeated vertex line replace the
    earlier one (diagnosis of one known defect); None when not applicable."""
    try:
        _check_ws(text)
        size, rows = None, {}
        for raw in text.split("\n"):
            s = raw.strip()
            if raw[:1] == "c" or not s:
                continue
            if ":" not in s:
                size = int(s)
                continue
            a, b = s.split(":")
            nb = [int(t) for t in b.split()]
            rows[int(a)] = nb[:-1]
        L = max(rows, default=0)
        return ("bipartite", L, size - L, frozenset((u, v - L) for u, nb in rows.items() for v in nb))
    except Exception:       # noqa: BLE001 - diagnosis only
        return None


# --------------------------------------------------------------------------- DIMACS edge format
def _dimacs(text, gtype):
    n = m = None
    elines = []
    for raw in text.split("\n"):
        s = raw.strip()
        if not s:
            continue
        if s[0] == "c":
            continue
        toks = s.split()
        if s[0] == "p":
            if toks[0] != "p":
                raise Unclear("descriptor-glued-to-letter")
            if n is not None:
                raise Reject("second-problem-line")
            if len(toks) != 4:
                raise Reject("problem-line-shape")
            if toks[1] != "edge":
                if toks[1] == "col":
                    raise Unclear("p-col")
                raise Reject("not-edge-format")
            n, m = _int(toks[2]), _int(toks[3])
            if n < 0:
                raise Reject("negative-size")
        elif s[0] == "e":
            if toks[0] != "e":
                raise Unclear("descriptor-glued-to-letter")
            if n is None:
                raise Reject("edge-before-problem-line")
            if len(toks) != 3:
                raise Reject("edge-line-shape")
            u, v = _int(toks[1]), _int(toks[2])
            if not (1 <= u <= n and 1 <= v <= n):
                raise Reject("vertex-out-of-range")
            if gtype == "simple" and u == v:
                raise Reject("self-loop")
            elines.append((u, v))
        # other descriptor lines (n, d, v, x ... of the DIMACS family) are not graph data
    if n is None:
        raise Reject("no-problem-line")
    if gtype == "simple":
        edges = frozenset((min(u, v), max(u, v)) for u, v in elines)
    else:
        edges = frozenset(elines)
    if m != len(elines) and m != len(edges):
        raise Reject("declared-edge-count")
    if gtype == "dag" and any(a >= b for a, b in edges):
        raise Reject("back-edge-under-dag")
    return ("simple" if gtype == "simple" else "digraph", n, edges)


def dimacs(text, gtype):
    return _verdict(_dimacs, text, gtype)


# --------------------------------------------------------------------------- 0/1 matrix
def _matrix(text, gtype):
    toks = []
    for raw in text.split("\n"):
        t = raw.split()
        if not t or t[0][0] == "#":
            continue
        for x in t:
            if x[0] == "#":
                raise Unclear("trailing-comment")
            toks.append(_int(x))
    if len(toks) < 2:
        raise Reject("missing-dimensions")
    L, R = toks[0], toks[1]
    if L < 0 or R < 0:
        raise Reject("negative-dimension")
    body = toks[2:]
    if len(body) < L * R:
        raise Reject("too-few-entries")
    if any(b not in (0, 1) for b in body[:L * R]):
        raise Reject("entry-not-0-1")
    if len(body) > L * R:
        raise Reject("too-many-entries")
    return ("bipartite", L, R, frozenset((i + 1, j + 1) for i in range(L) for j in range(R) if body[i * R + j]))


def matrix(text, gtype="bipartite"):
    return _verdict(_matrix, text, gtype)


READERS = {"kthlist": kthlist, "dimacs": dimacs, "matrix": matrix}


def selfcheck():
    """The examples of the format descriptions and of the repository's docstrings."""
    ok = True
    ok &= kthlist("3\n3: 1 2 0\n", "digraph") == ("graph", ("digraph", 3, frozenset({(1, 3), (2, 3)})))
    ok &= kthlist("3\n1: 3 0\n2: 3 0\n3: 1 2 0\n", "simple") == ("graph", ("simple", 3, frozenset({(1, 3), (2, 3)})))
    ok &= kthlist("5\n1: 4 5 0\n2: 4 5 0\n3: 4 5 0\n", "bipartite") == (
        "graph", ("bipartite", 3, 2, frozenset((u, v) for u in (1, 2, 3) for v in (1, 2))))
    ok &= kthlist("c x\n3\n1 : 0\n2 : 0\n3 : 0\n", "bipartite") == ("graph", ("bipartite", 3, 0, frozenset()))
    ok &= kthlist("", "simple") == ("reject", "no-size-line")
    ok &= kthlist("3\n3 : 2 1 0\n", "dag")[0] == "graph" and kthlist("3\n2 : 3 0\n", "dag")[0] == "reject"
    ok &= kthlist("3\n1 : 2\n3 0\n", "digraph")[0] == "unclear"
    ok &= dimacs("c a\np edge 3 2\ne 1 2\ne 3 2\n", "simple") == ("graph", ("simple", 3, frozenset({(1, 2), (2, 3)})))
    ok &= dimacs("p edge 3 2\n\ne 1 2\ne 3 2\n", "digraph") == ("graph", ("digraph", 3, frozenset({(1, 2), (3, 2)})))
    ok &= dimacs("p edge 3 2\ne 1 2\ne 3 2\n", "dag") == ("reject", "back-edge-under-dag")
    ok &= dimacs("p edge 3 1\ne 1 2\ne 3 2\n", "simple") == ("reject", "declared-edge-count")
    ok &= matrix("2 3\n1 0 1\n0 1 0\n") == ("graph", ("bipartite", 2, 3, frozenset({(1, 1), (1, 3), (2, 2)})))
    ok &= matrix("# c\n2 3\n1 0 1\n0 1\n")[0] == "reject" and matrix("0 4\n") == ("graph", ("bipartite", 0, 4, frozenset()))
    if not ok:
        raise RuntimeError("C14 reference readers fail their own examples")

"""Reference semantics of the variable-group shapes of C11 (written from the documentation).

An operation is a JSON list whose first entry names the shape:

    ["var"]                          one named variable (index ())
    ["block", [r1..rd]]              indices [r1] x .. x [rd]
    ["comb"|"combr"|"perm"|"words", n, k]   k-subsets / multisets / arrangements / words over [n]
                                     (perm: k may be None = n)
    ["bip", L, R, edges] ["bipc", L, R]     edges of a bipartite graph (bipc: CompleteBipartiteGraph)
    ["graph", n, edges]              edges of a simple graph, index (min, max)
    ["digraph", n, edges, sortby]    arcs of a directed graph
    ["map", n, m] ["smap", L, R, edges]     unary mapping atoms f(i)=j
    ["bmap", n, m]                   bits (i, b), b in 0..ceil(log2 m)-1

For every shape: the set of legal indices, its size by a closed form that does not
enumerate, the arity, the per-coordinate bounds and the meaning of a pattern.
Nothing here imports cnfgen.
"""
import itertools
import math

WORD_KINDS = {"comb": "combinations", "combr": "combinations_with_replacement",
              "perm": "permutations", "words": "words"}

KIND_NAMES = {"var": "variable", "block": "block", "bip": "bipartite-edges", "bipc": "bipartite-edges",
              "graph": "graph-edges", "map": "mapping", "smap": "sparse-mapping", "bmap": "binary-mapping"}
KIND_NAMES.update(WORD_KINDS)

GROUP_OPS = tuple(KIND_NAMES) + ("digraph",)


def kind_name(op):
    if op[0] == "digraph":
        return "digraph-edges[%s]" % op[3]
    return KIND_NAMES[op[0]]


def perm_k(op):
    return op[1] if op[2] is None else op[2]


def bits(m):
    """smallest k with m <= 2^k (exact integer arithmetic)"""
    return (m - 1).bit_length()


def legal_indices(op):
    """The legal indices as a list of tuples (in the order the documentation lists them;
    the monitor compares as a set)."""
    k = op[0]
    if k == "var":
        return [()]
    if k == "block":
        return list(itertools.product(*[range(1, r + 1) for r in op[1]]))
    if k == "comb":
        return list(itertools.combinations(range(1, op[1] + 1), op[2]))
    if k == "combr":
        return list(itertools.combinations_with_replacement(range(1, op[1] + 1), op[2]))
    if k == "perm":
        return list(itertools.permutations(range(1, op[1] + 1), perm_k(op)))
    if k == "words":
        return list(itertools.product(range(1, op[1] + 1), repeat=op[2]))
    if k in ("bip", "smap"):
        if len(op) > 4 and op[4] == "user-class-own-order":
            # identifiers follow the left vertex, then the order in which the graph lists its neighbours
            from ..ducks import listed
            E = {(u, v) for u, v in op[3]}
            return [(u, v) for u in range(1, op[1] + 1) for v in listed([b for (a, b) in E if a == u], u, "preference")]
        return sorted({(u, v) for u, v in op[3]})
    if k in ("bipc", "map"):
        return [(u, v) for u in range(1, op[1] + 1) for v in range(1, op[2] + 1)]
    if k == "graph":
        return sorted({(min(u, v), max(u, v)) for u, v in op[2]})
    if k == "digraph":
        E = {(u, v) for u, v in op[2]}
        return sorted(E) if op[3] == "pred" else sorted(E, key=lambda e: (e[1], e[0]))
    if k == "bmap":
        return [(i, b) for i in range(1, op[1] + 1) for b in range(bits(op[2]) - 1, -1, -1)]
    raise ValueError(op)


def closed_count(op):
    """Number of variables by closed form (no enumeration of indices)."""
    k = op[0]
    if k == "var":
        return 1
    if k == "block":
        return math.prod(op[1])
    if k == "comb":
        return math.comb(op[1], op[2])
    if k == "combr":
        n, r = op[1], op[2]
        if r == 0:
            return 1
        return math.comb(n + r - 1, r) if n > 0 else 0
    if k == "perm":
        return math.perm(op[1], perm_k(op))
    if k == "words":
        return op[1] ** op[2]
    if k in ("bip", "smap"):
        return len({tuple(e) for e in op[3]})
    if k in ("bipc", "map"):
        return op[1] * op[2]
    if k == "graph":
        return len({frozenset(e) for e in op[2]})
    if k == "digraph":
        return len({tuple(e) for e in op[2]})
    if k == "bmap":
        return op[1] * bits(op[2])
    raise ValueError(op)


def arity(op):
    k = op[0]
    if k == "var":
        return 0
    if k == "block":
        return len(op[1])
    if k in WORD_KINDS:
        return perm_k(op) if k == "perm" else op[2]
    return 2


def bounds(op):
    """[(lo, hi)] per coordinate: the values a coordinate can take at all."""
    k = op[0]
    if k == "block":
        return [(1, r) for r in op[1]]
    if k in WORD_KINDS:
        return [(1, op[1])] * arity(op)
    if k in ("bip", "bipc", "map", "smap"):
        return [(1, op[1]), (1, op[2])]
    if k in ("graph", "digraph"):
        return [(1, op[1]), (1, op[1])]
    if k == "bmap":
        return [(1, op[1]), (0, bits(op[2]) - 1)]
    return []


def matches(op, pattern, idx):
    """Does the legal index `idx` match `pattern` (None = any)?  Simple graphs: an edge matches
    (w, None) / (None, w) when it is incident to w and (u, v) when it is the edge {u, v}."""
    if len(pattern) == 0:
        return True
    if op[0] == "graph":
        fixed = [p for p in pattern if p is not None]
        if len(fixed) == 2:
            return set(fixed) == set(idx) and fixed[0] != fixed[1]
        return all(w in idx for w in fixed)
    return all(p is None or p == i for p, i in zip(pattern, idx))


def in_bounds(op, pattern):
    return all(p is None or lo <= p <= hi for p, (lo, hi) in zip(pattern, bounds(op)))


_checked = False


def selfcheck():
    """closed forms against the enumerations on a grid (a harness bug must not become a verdict)"""
    global _checked
    if _checked:
        return
    ops = [["var"]]
    for d in range(1, 4):
        for rs in itertools.product(range(0, 4), repeat=d):
            ops.append(["block", list(rs)])
    for n in range(0, 5):
        for k in range(0, 5):
            ops += [["comb", n, k], ["combr", n, k], ["perm", n, k], ["words", n, k],
                    ["map", n, k], ["bipc", n, k]]
            if n >= 1 and k >= 1:
                ops.append(["bmap", n, k])
        ops.append(["perm", n, None])
    E = [(1, 2), (2, 1), (2, 2), (1, 2)]
    ops += [["bip", 2, 2, E], ["smap", 2, 2, E], ["graph", 2, [(1, 2), (2, 1)]],
            ["digraph", 2, E, "pred"], ["digraph", 2, E, "succ"]]
    for op in ops:
        L = legal_indices(op)
        assert len(L) == closed_count(op) == len(set(L)), op
        assert all(len(t) == arity(op) for t in L), op
        assert all(in_bounds(op, t) for t in L), op
    for m, k in ((1, 0), (2, 1), (3, 2), (4, 2), (5, 3), (8, 3), (9, 4), (16, 4), (17, 5)):
        assert bits(m) == k
    _checked = True

"""Decoding variable names reported by a formula into atoms (DESIGN.md §3.2).

A label is split into a template (every maximal digit run replaced by '#') and
the tuple of integers: 'p_{1,2}' -> ('p_{#,#}', (1, 2)),  '(f_{1}(2))_{0}' ->
('(f_{#}(#))_{#}', (1, 2, 0)).  The reference models look atoms up by template,
never by identifier arithmetic.
"""
import re

_DIG = re.compile(r"\d+")


class NameDecodeError(Exception):
    pass


def atom(label):
    return _DIG.sub("#", label), tuple(int(x) for x in _DIG.findall(label))


def atoms_of(F):
    """{(template, ints): variable id} for all variables of F."""
    out = {}
    for i, lab in enumerate(F.all_variable_labels(), start=1):
        a = atom(lab)
        if a in out:
            raise NameDecodeError("label %r names variables %d and %d" % (lab, out[a], i))
        out[a] = i
    if len(out) != F.number_of_variables():
        raise NameDecodeError("%d labels for %d variables" % (len(out), F.number_of_variables()))
    return out


def by_template(atoms):
    """{template: {ints: var}}"""
    out = {}
    for (t, ints), v in atoms.items():
        out.setdefault(t, {})[ints] = v
    return out


def eval_clause(cl, true):
    return any((l > 0) == (abs(l) in true) for l in cl)


def eval_formula(F, true):
    """Does the assignment {true variables} satisfy F?  Plain evaluation, CNF or OPB."""
    true = set(true)
    if hasattr(F, "_constraints"):
        for con in F:
            s = sum(c for c, l in con[:-2] if (l > 0) == (abs(l) in true))
            if con[-2] == ">=":
                if not s >= con[-1]:
                    return False
            elif con[-2] == "==":
                if not s == con[-1]:
                    return False
            else:
                raise ValueError("operator %r" % (con[-2],))
        return True
    return all(eval_clause(cl, true) for cl in F)


class Evaluator:
    """Repeated evaluation of one (large) formula.  Clauses -- and OPB constraints that are clauses -- are grouped by
    their variable set: an assignment falsifies, on a given variable set, exactly the clause that negates it, so one
    evaluation costs a set lookup per distinct variable set instead of a pass over every clause.  Other OPB
    constraints are evaluated as they stand."""

    def __init__(self, F):
        self.groups = {}
        self.other = []
        self.clauses = 0
        if hasattr(F, "_constraints"):
            for con in F:
                if con[-2] == ">=" and con[-1] == 1 and all(c == 1 for c, _ in con[:-2]):
                    self._clause([l for _, l in con[:-2]])
                else:
                    if con[-2] not in (">=", "=="):
                        raise ValueError("operator %r" % (con[-2],))
                    self.other.append(con)
        else:
            for cl in F:
                self._clause(cl)

    def _clause(self, cl):
        s = set(cl)
        if any(-l in s for l in s):
            return                                  # contains x and -x: always true
        lits = sorted(s, key=abs)
        self.groups.setdefault(tuple(abs(l) for l in lits), set()).add(tuple(l > 0 for l in lits))
        self.clauses += 1

    def value(self, true):
        for vs, pats in self.groups.items():
            if tuple(v not in true for v in vs) in pats:
                return False
        for con in self.other:
            s = sum(c for c, l in con[:-2] if (l > 0) == (abs(l) in true))
            if not (s >= con[-1] if con[-2] == ">=" else s == con[-1]):
                return False
        return True


class _NotClauses(Exception):
    pass


def eval_many(F, assignments):
    """Evaluate a CNF (or the clause-shaped constraints of an OPB) on several assignments in a single pass over
    the clauses: variable v carries one bit per assignment.  Returns the list of truth values."""
    K = len(assignments)
    full = (1 << K) - 1
    mask = {}
    for j, t in enumerate(assignments):
        for v in t:
            mask[v] = mask.get(v, 0) | (1 << j)
    alive = full
    get = mask.get
    if hasattr(F, "_constraints"):
        def clauses():
            for con in F:
                if con[-2] == ">=" and con[-1] == 1 and all(c == 1 for c, _ in con[:-2]):
                    yield [l for _, l in con[:-2]]
                else:
                    raise _NotClauses
        try:
            source = list(clauses())
        except _NotClauses:
            return [eval_formula(F, t) for t in assignments]
    else:
        source = F
    for cl in source:
        s = 0
        for l in cl:
            s |= get(l, 0) if l > 0 else full ^ get(-l, 0)
        alive &= s
        if not alive:
            break
    return [bool((alive >> j) & 1) for j in range(K)]

"""Decoding variable names reported by a formula into atoms (DESIGN.md §3.2).

A label is split into a template (every maximal digit run replaced by '#') and
the tuple of integers: 'p_{1,2}' -> ('p_{#,#}', (1, 2)),  '(f_{1}(2))_{0}' ->
('(f_{#}(#))_{#}', (1, 2, 0)).  The reference models look atoms up by template,
never by identifier arithmetic.
"""
import re

_DIG = re.compile(r"\d+")


class NameDecodeError(Exception):
    pass


def atom(label):
    return _DIG.sub("#", label), tuple(int(x) for x in _DIG.findall(label))


def atoms_of(F):
    """{(template, ints): variable id} for all variables of F."""
    out = {}
    for i, lab in enumerate(F.all_variable_labels(), start=1):
        a = atom(lab)
        if a in out:
            raise NameDecodeError("label %r names variables %d and %d" % (lab, out[a], i))
        out[a] = i
    if len(out) != F.number_of_variables():
        raise NameDecodeError("%d labels for %d variables" % (len(out), F.number_of_variables()))
    return out


def by_template(atoms):
    """{template: {ints: var}}"""
    out = {}
    for (t, ints), v in atoms.items():
        out.setdefault(t, {})[ints] = v
    return out


def eval_clause(cl, true):
    return any((l > 0) == (abs(l) in true) for l in cl)


def eval_formula(F, true):
    """Does the assignment {true variables} satisfy F?  Plain evaluation, CNF or OPB."""
    true = set(true)
    if hasattr(F, "_constraints"):
        for con in F:
            s = sum(c for c, l in con[:-2] if (l > 0) == (abs(l) in true))
            if con[-2] == ">=":
                if not s >= con[-1]:
                    return False
            elif con[-2] == "==":
                if not s == con[-1]:
                    return False
            else:
                raise ValueError("operator %r" % (con[-2],))
        return True
    return all(eval_clause(cl, true) for cl in F)

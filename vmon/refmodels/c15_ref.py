"""Reference side of C15: what the documentation of every command-line graph
construction promises, written from graph_docs.py and from the mathematical
names of the graphs -- no code of cnfgen is imported here.

A graph is handed around in a neutral form:

    simple     ("simple", n, frozenset of frozenset({u, v}))         vertices 1..n
    bipartite  ("bipartite", (L, R), frozenset of (u, v))            u in 1..L, v in 1..R
    dag        ("dag", n, frozenset of (src, dest))

Also here: strict readers for the files written by `save` (they accept exactly
what the format descriptions allow and know nothing about cnfgen's readers).
"""
import itertools
import math
import re

import networkx as nx


# ------------------------------------------------------------------ named graphs
def grid_nx(dims, periodic):
    """Cartesian product of paths (cycles).  As a *simple* graph: a cycle on two
    vertices is a single edge, a cycle on one vertex a single vertex."""
    V = list(itertools.product(*[range(d) for d in dims]))
    H = nx.Graph()
    H.add_nodes_from(V)
    for v in V:
        for i, d in enumerate(dims):
            if periodic:
                w = v[:i] + ((v[i] + 1) % d,) + v[i + 1:]
                if w != v:
                    H.add_edge(v, w)
            elif v[i] + 1 < d:
                H.add_edge(v, v[:i] + (v[i] + 1,) + v[i + 1:])
    return H


def complete_multipartite_nx(n, blocks):
    H = nx.Graph()
    V = [(b, i) for b in range(blocks) for i in range(n)]
    H.add_nodes_from(V)
    for x, y in itertools.combinations(V, 2):
        if x[0] != y[0]:
            H.add_edge(x, y)
    return H


def path_nx(length):
    H = nx.DiGraph()
    H.add_nodes_from(range(length + 1))
    H.add_edges_from((i, i + 1) for i in range(length))
    return H


def tree_nx(height):
    """Complete binary tree, every edge directed from child to parent."""
    H = nx.DiGraph()
    H.add_node(())
    level = [()]
    for _ in range(height):
        nxt = []
        for p in level:
            for c in (0, 1):
                H.add_edge(p + (c,), p)
                nxt.append(p + (c,))
        level = nxt
    return H


def pyramid_nx(height):
    """Layer k (k = 0 bottom) has height+1-k vertices; (k, i) has the two
    predecessors (k-1, i) and (k-1, i+1)."""
    H = nx.DiGraph()
    for k in range(height + 1):
        for i in range(height + 1 - k):
            H.add_node((k, i))
            if k:
                H.add_edge((k - 1, i), (k, i))
                H.add_edge((k - 1, i + 1), (k, i))
    return H


def dag_order(name, x):
    if name == "path":
        return x + 1
    if name == "tree":
        return 2 ** (x + 1) - 1
    return (x + 1) * (x + 2) // 2


def shift_edges(L, R, pattern):
    return frozenset((u, 1 + (u - 1 + o) % R) for u in range(1, L + 1) for o in pattern)


def to_nx(g):
    kind, size, E = g
    if kind == "simple":
        H = nx.Graph()
        H.add_nodes_from(range(1, size + 1))
        H.add_edges_from(tuple(e) for e in E)
    elif kind == "dag":
        H = nx.DiGraph()
        H.add_nodes_from(range(1, size + 1))
        H.add_edges_from(E)
    else:
        L, R = size
        H = nx.Graph()
        H.add_nodes_from(("l", u) for u in range(1, L + 1))
        H.add_nodes_from(("r", v) for v in range(1, R + 1))
        H.add_edges_from((("l", u), ("r", v)) for u, v in E)
    return H


def isomorphic(A, B):
    if A.number_of_nodes() != B.number_of_nodes() or A.number_of_edges() != B.number_of_edges():
        return False
    if A.is_directed():
        da = sorted((A.in_degree(v), A.out_degree(v)) for v in A)
        db = sorted((B.in_degree(v), B.out_degree(v)) for v in B)
        if da != db:
            return False
    elif not nx.faster_could_be_isomorphic(A, B):
        return False
    return nx.is_isomorphic(A, B)


# ------------------------------------------------------------------ predicates
def degrees_simple(n, E):
    deg = [0] * (n + 1)
    for e in E:
        for v in e:
            deg[v] += 1
    return deg[1:]


def has_clique(n, E, k):
    """Is there a set of k pairwise adjacent vertices?  (brute force, small n)"""
    if k <= 1:
        return k <= n
    adj = {v: set() for v in range(1, n + 1)}
    for e in E:
        u, v = tuple(e)
        adj[u].add(v)
        adj[v].add(u)
    cand = [v for v in adj if len(adj[v]) >= k - 1]
    for S in itertools.combinations(cand, k):
        if all(b in adj[a] for a, b in itertools.combinations(S, 2)):
            return True
    return False


def clique_explains(n, base, E, k):
    """Is E = base + all pairs of some k-set S?"""
    if not base <= E:
        return False
    extra = E - base
    touched = set()
    for e in extra:
        touched |= set(e)
    if len(touched) > k:
        return False
    rest = [v for v in range(1, n + 1) if v not in touched]
    if k - len(touched) > len(rest):
        return False
    for add in itertools.combinations(rest, k - len(touched)):
        S = touched | set(add)
        pairs = {frozenset(p) for p in itertools.combinations(S, 2)}
        if pairs <= E and extra <= pairs:
            return True
    return False


def biclique_explains(L, R, base, E, a, b):
    """Is E = base + A x B for some A (a left vertices), B (b right vertices)?"""
    if not base <= E:
        return False
    extra = E - base
    la = {u for u, _ in extra}
    rb = {v for _, v in extra}
    if len(la) > a or len(rb) > b:
        return False
    restl = [u for u in range(1, L + 1) if u not in la]
    restr = [v for v in range(1, R + 1) if v not in rb]
    if a - len(la) > len(restl) or b - len(rb) > len(restr):
        return False
    for al in itertools.combinations(restl, a - len(la)):
        A = la | set(al)
        for br in itertools.combinations(restr, b - len(rb)):
            B = rb | set(br)
            if all((u, v) in E for u in A for v in B):
                return True
    return False


def balanced_partition_exists(n_per_block, blocks, E):
    """Can the n_per_block*blocks vertices be split into `blocks` independent sets of
    n_per_block vertices each?  Consecutive blocks are tried first."""
    N = n_per_block * blocks
    cons = [v // n_per_block for v in range(N)]
    if all(cons[min(e) - 1] != cons[max(e) - 1] for e in E):
        return True
    if N > 9:
        return None          # too large for the brute force: not judged
    adj = {v: set() for v in range(1, N + 1)}
    for e in E:
        u, v = tuple(e)
        adj[u].add(v)
        adj[v].add(u)
    colour = {}
    sizes = [0] * blocks

    def rec(v):
        if v > N:
            return True
        seen_empty = False
        for c in range(blocks):
            if sizes[c] >= n_per_block:
                continue
            if sizes[c] == 0:
                if seen_empty:
                    continue
                seen_empty = True
            if any(colour.get(w) == c for w in adj[v]):
                continue
            colour[v] = c
            sizes[c] += 1
            if rec(v + 1):
                return True
            sizes[c] -= 1
            del colour[v]
        return False
    return rec(1)


def subdivision_explains(n0, base, n1, E, k):
    """Is (n1, E) obtained from (n0, base) by replacing k edges {u,v} by u - x - v with
    k new vertices x?"""
    if n1 != n0 + k:
        return False
    new = range(n0 + 1, n1 + 1)
    removed = set()
    used = set()
    for x in new:
        inc = [e for e in E if x in e]
        if len(inc) != 2:
            return False
        ends = []
        for e in inc:
            (o,) = tuple(set(e) - {x})
            ends.append(o)
        if any(o > n0 for o in ends) or ends[0] == ends[1]:
            return False
        orig = frozenset(ends)
        if orig not in base or orig in removed:
            return False
        removed.add(orig)
        used |= set(inc)
    return E - used == base - removed and len(removed) == k


# ------------------------------------------------------------------ strict file readers
class FileFormatError(Exception):
    pass


def _ints(tokens):
    out = []
    for t in tokens:
        if not re.fullmatch(r"-?\d+", t):
            raise FileFormatError("not an integer: %r" % t)
        out.append(int(t))
    return out


def read_kthlist(text):
    """-> (n, {vertex: [listed vertices]}).  'c' lines are comments, one size line,
    then 'v : a b c 0' lines with increasing v."""
    n, adj, last = None, {}, 0
    for line in text.splitlines():
        if line.startswith("c") or not line.strip():
            continue
        if ":" not in line:
            if n is not None:
                raise FileFormatError("second size line")
            (n,) = _ints(line.split())
            continue
        if n is None:
            raise FileFormatError("adjacency before the size line")
        left, right = line.split(":")
        (v,) = _ints(left.split())
        lst = _ints(right.split())
        if not lst or lst[-1] != 0:
            raise FileFormatError("list of %d does not end with 0" % v)
        lst.pop()
        if v <= last or not 1 <= v <= n or any(not 1 <= w <= n for w in lst):
            raise FileFormatError("vertex out of order or range at %d" % v)
        if len(set(lst)) != len(lst):
            raise FileFormatError("repeated neighbour in the list of %d" % v)
        last = v
        adj[v] = lst
    if n is None:
        raise FileFormatError("no size line")
    return n, adj


def graph_from_kthlist(kind, text):
    n, adj = read_kthlist(text)
    if kind == "simple":
        E = set()
        for v, lst in adj.items():
            for w in lst:
                if w == v:
                    raise FileFormatError("loop")
                E.add(frozenset((v, w)))
        # an undirected adjacency list names every edge from both ends
        for e in E:
            u, v = tuple(e)
            if v not in adj.get(u, ()) or u not in adj.get(v, ()):
                raise FileFormatError("edge %r listed from one end only" % (sorted(e),))
        return ("simple", n, frozenset(E))
    if kind == "dag":
        return ("dag", n, frozenset((w, v) for v, lst in adj.items() for w in lst))
    # bipartite: lists of the left vertices only, right vertices numbered after the left ones.
    # The file does not say where the left side ends when trailing left vertices have no list;
    # the writer lists every left vertex, so the left side is the set of listed vertices.
    if sorted(adj) != list(range(1, len(adj) + 1)):
        raise FileFormatError("left vertices are not 1..L")
    L = len(adj)
    E = set()
    for u, lst in adj.items():
        for w in lst:
            if w <= L:
                raise FileFormatError("edge inside the left side")
            E.add((u, w - L))
    return ("bipartite", (L, n - L), frozenset(E))


def graph_from_dimacs(kind, text):
    n = m = None
    E = []
    for line in text.splitlines():
        if line.startswith("c") or not line.strip():
            continue
        tok = line.split()
        if tok[0] == "p":
            if n is not None or len(tok) != 4 or tok[1] != "edge":
                raise FileFormatError("bad problem line %r" % line)
            n, m = _ints(tok[2:])
        elif tok[0] == "e":
            if n is None or len(tok) != 3:
                raise FileFormatError("bad edge line %r" % line)
            u, v = _ints(tok[1:])
            if not (1 <= u <= n and 1 <= v <= n):
                raise FileFormatError("vertex out of range in %r" % line)
            E.append((u, v))
        else:
            raise FileFormatError("unknown line %r" % line)
    if n is None or m != len(E):
        raise FileFormatError("edge count %r does not match %d edge lines" % (m, len(E)))
    if kind == "simple":
        S = frozenset(frozenset(e) for e in E)
        if len(S) != len(E) or any(len(e) != 2 for e in S):
            raise FileFormatError("repeated edge or loop")
        return ("simple", n, S)
    if len(set(E)) != len(E):
        raise FileFormatError("repeated edge")
    return ("dag", n, frozenset(E))


def graph_from_matrix(text):
    nums = []
    for line in text.splitlines():
        tok = line.split()
        if not tok or tok[0].startswith("#"):
            continue
        nums.extend(_ints(tok))
    if len(nums) < 2:
        raise FileFormatError("no dimensions")
    L, R = nums[0], nums[1]
    body = nums[2:]
    if L < 0 or R < 0 or len(body) != L * R or any(b not in (0, 1) for b in body):
        raise FileFormatError("matrix body does not have %dx%d 0/1 entries" % (L, R))
    E = frozenset((i + 1, j + 1) for i in range(L) for j in range(R) if body[i * R + j])
    return ("bipartite", (L, R), E)


def _from_labelled_nx(kind, X):
    """networkx graph whose node names are the decimal vertex numbers (strings or ints)."""
    names = {}
    for v in X.nodes():
        s = str(v).strip('"')
        if not re.fullmatch(r"\d+", s):
            raise FileFormatError("node %r is not a vertex number" % (v,))
        names[v] = int(s)
    n = len(names)
    if sorted(names.values()) != list(range(1, n + 1)):
        raise FileFormatError("nodes are not 1..%d: %r" % (n, sorted(names.values())[:8]))
    if X.is_multigraph():
        raise FileFormatError("multigraph")
    if kind == "dag":
        if not X.is_directed():
            raise FileFormatError("file holds an undirected graph")
        return ("dag", n, frozenset((names[a], names[b]) for a, b in X.edges()))
    if X.is_directed():
        raise FileFormatError("file holds a directed graph")
    if kind == "simple":
        E = frozenset(frozenset((names[a], names[b])) for a, b in X.edges())
        if any(len(e) != 2 for e in E):
            raise FileFormatError("loop")
        return ("simple", n, E)
    side = {}
    for v, d in X.nodes(data=True):
        b = str(d.get("bipartite", "")).strip('"')
        if b not in ("0", "1"):
            raise FileFormatError("node %r has no bipartite attribute" % (v,))
        side[names[v]] = int(b)
    left = sorted(v for v, s in side.items() if s == 0)
    L = len(left)
    if left != list(range(1, L + 1)):
        raise FileFormatError("left vertices are not numbered first")
    E = set()
    for a, b in X.edges():
        a, b = sorted((names[a], names[b]))
        if not (side[a] == 0 and side[b] == 1):
            raise FileFormatError("edge inside a side")
        E.add((a, b - L))
    return ("bipartite", (L, n - L), frozenset(E))


def graph_from_gml(kind, text):
    try:
        X = nx.parse_gml(text, label="label")
    except nx.NetworkXError as e:
        raise FileFormatError("gml: %s" % e)
    return _from_labelled_nx(kind, X)


def graph_from_dot(kind, path):
    import contextlib
    import io
    buf = io.StringIO()
    try:
        with contextlib.redirect_stdout(buf):
            X = nx.nx_pydot.read_dot(path)
    except Exception as e:            # noqa: BLE001 - pydot raises assorted types
        raise FileFormatError("dot: %r" % e)
    for junk in ("\\n", "\n"):
        if junk in X:
            X.remove_node(junk)
    if X.is_multigraph():
        # read_dot answers with a Multi(Di)Graph unless the file says `strict`
        Y = nx.DiGraph() if X.is_directed() else nx.Graph()
        Y.add_nodes_from(X.nodes(data=True))
        for a, b in X.edges():
            if Y.has_edge(a, b):
                raise FileFormatError("repeated edge")
            Y.add_edge(a, b)
        X = Y
    return _from_labelled_nx(kind, X)


def read_saved(kind, fmt, path):
    """The graph a saved file denotes; FileFormatError when it is not a file of that format."""
    try:
        return _read_saved(kind, fmt, path)
    except FileFormatError:
        raise
    except Exception as e:        # noqa: BLE001 - whatever a malformed file trips in the readers
        raise FileFormatError("%s: %r" % (fmt, e))


def _read_saved(kind, fmt, path):
    if fmt == "dot":
        return graph_from_dot(kind, path)
    with open(path, encoding="utf-8") as f:
        text = f.read()
    if fmt == "kthlist":
        return graph_from_kthlist(kind, text)
    if fmt == "dimacs":
        return graph_from_dimacs(kind, text)
    if fmt == "matrix":
        return graph_from_matrix(text)
    if fmt == "gml":
        return graph_from_gml(kind, text)
    raise FileFormatError("unknown format %r" % fmt)


def comb2(n):
    return math.comb(n, 2)

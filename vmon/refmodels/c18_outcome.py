"""Text-level judgement of what a command line tool left behind (C18).

Pure functions on (exit status, stdout, stderr, output file): no knowledge of how the
tool got there.  Shares no code with cnfgen; the three format readers are the strict
reference readers of C06 / C12.

    formula_fragments(text)            lines that belong to a formula file of any format
    check_formula(fmt, text)           Verdict of the strict reader of `fmt` on a complete output
    accepted_formats(text)             the formats whose strict reader accepts `text`
    unshielded_lines(stderr, markers)  stderr lines that do not start with an allowed comment marker
    coarse(...)                        tap-free outcome class, used to compare an in-process
                                       observation with a real process
"""
import collections
import re

from . import c06_dimacs, c12_latex, c12_opb

MARKER = {"dimacs": "c", "opb": "*", "latex": "%"}
DEFAULT_FORMAT = {"cnfgen": "dimacs", "pbgen": "opb", "cnfshuffle": "dimacs", "kthlist2pebbling": "dimacs"}
FORMATS = ("dimacs", "opb", "latex")

_DIMACS_PROBLEM = re.compile(r"^\s*p\s+cnf\b")
_DIMACS_CLAUSE = re.compile(r"^\s*(-?[0-9]+\s+)*0\s*$")
_OPB_HEADER = re.compile(r"^\*\s*#variable=")
_OPB_ROW = re.compile(r"^\s*([+-]?[0-9]+\s+~?x[0-9]+\s+)*(>=|=)\s*[+-]?[0-9]+\s*;?\s*$")
_LATEX = re.compile(r"\\(documentclass|begin\{document\}|end\{document\}|begin\{align\}|end\{align\})")
_COMMENT = re.compile(r"^(c|\*|%)(\s|$)")
_LINE_END = re.compile(r"\r\n|\n|\r")

Verdict = collections.namedtuple("Verdict", "ok kind detail variables rows")
Verdict.__doc__ = """ok: the strict reader accepts; kind: value-free reason of a rejection; detail: the
reader's own words; variables / rows: the declared counts of an accepted text."""


def lines_of(text):
    out = _LINE_END.split(text)
    if out and out[-1] == "":
        out.pop()
    return out


def formula_fragments(text, comments=True):
    """[(line number, kind, line)] -- every line that is part of a formula file in one of the three
    formats: a problem/header line, a clause / constraint row, LaTeX document or align structure and
    (comments=True) a comment line of one of the formats (a writer starts its file with them)."""
    out = []
    for no, line in enumerate(lines_of(text), 1):
        if _DIMACS_PROBLEM.match(line):
            out.append((no, "dimacs-problem-line", line))
        elif _OPB_HEADER.match(line):
            out.append((no, "opb-header-line", line))
        elif _DIMACS_CLAUSE.match(line):
            out.append((no, "dimacs-clause", line))
        elif _OPB_ROW.match(line):
            out.append((no, "opb-constraint", line))
        elif _LATEX.search(line):
            out.append((no, "latex-structure", line))
        elif comments and _COMMENT.match(line):
            out.append((no, "comment-line", line))
    return out


def check_formula(fmt, text):
    """The strict reader of `fmt` on a text that claims to be a complete output."""
    if text == "":
        return Verdict(False, "no-output", "the output is empty", None, None)
    if fmt == "dimacs":
        lay = c06_dimacs.scan_output(text)
        if lay.offending:
            no, kind, line = lay.offending[0]
            return Verdict(False, "stray-line:" + kind, "line %d: %r" % (no, line[:80]), None, None)
        if len(lay.problems) != 1:
            return Verdict(False, "no-problem-line", "%d problem lines" % len(lay.problems), None, None)
        _, n, m = lay.problems[0]
        if m != len(lay.clauses):
            return Verdict(False, "clause-count-mismatch", "problem line declares %d clauses, the body has %d"
                           % (m, len(lay.clauses)), n, m)
        top = max((abs(l) for _, c in lay.clauses for l in c), default=0)
        if top > n:
            return Verdict(False, "literal-out-of-range", "literal %d with %d variables declared" % (top, n), n, m)
        if lay.unterminated:
            return Verdict(False, "unterminated-last-line", "the output does not end with a line break", n, m)
        return Verdict(True, None, None, n, m)
    if fmt == "opb":
        r = c12_opb.read_opb(text)
        if isinstance(r, c12_opb.Rejection):
            return Verdict(False, r.kind, repr(r), None, None)
        return Verdict(True, None, None, r.variables, r.constraints)
    if fmt == "latex":
        r = c12_latex.read_latex_document(text)
        if isinstance(r, c12_latex.Rejection):
            return Verdict(False, r.kind, repr(r), None, None)
        if r.declared is not None and r.declared[1] != len(r.rows):
            return Verdict(False, "declared-count-mismatch", "the document announces %d rows and has %d"
                           % (r.declared[1], len(r.rows)), r.declared[0], len(r.rows))
        return Verdict(True, None, None, r.declared[0] if r.declared else None, len(r.rows))
    raise ValueError(fmt)


def accepted_formats(text):
    return [f for f in FORMATS if check_formula(f, text).ok]


def unshielded_lines(err, markers):
    """Non-empty stderr lines that do not start with one of the comment markers."""
    return [l for l in lines_of(err) if l.strip() != "" and not any(l.startswith(m) for m in markers)]


TRACEBACK = "Traceback (most recent call last)"


def coarse(rc, out, err, crashed, files):
    """Outcome class from the outside (what a shell sees); `files`: {name: text} of the files named by '-o'.

    CRASH              an exception left main() (in a real process: traceback on stderr, status 1)
    SUCCESS            status 0, stdout or exactly one output file is a complete formula of some format
    HELP               status 0, text on stdout, no line of a formula anywhere
    EXIT0-NO-FORMULA   status 0, anything else
    ERROR[...]         status != 0; flags: +fragment (stdout or an output file holds part of a formula),
                       +silent (nothing on stderr), +unshielded (a stderr line starts with no comment marker)
    """
    if crashed or (rc not in (0, None) and TRACEBACK in err):
        return "CRASH"
    written = [t for t in files.values() if t != ""]
    if rc == 0:
        if out != "" and accepted_formats(out) and not any(formula_fragments(t) for t in written):
            return "SUCCESS"
        if len(written) == 1 and accepted_formats(written[0]) and not formula_fragments(out, comments=False):
            return "SUCCESS"
        if out.strip() != "" and not formula_fragments(out, comments=False) and not written:
            return "HELP"
        return "EXIT0-NO-FORMULA"
    flags = ""
    if formula_fragments(out) or any(formula_fragments(t) for t in written):
        flags += "+fragment"
    if err.strip() == "":
        flags += "+silent"
    elif unshielded_lines(err, tuple(MARKER.values())):
        flags += "+unshielded"
    return "ERROR" + flags


def selfcheck():
    d = "c x\np cnf 2 2\n1 -2 0\n0\n"
    assert check_formula("dimacs", d).ok and accepted_formats(d) == ["dimacs"]
    assert check_formula("dimacs", "p cnf 2 2\n1 -2 0\n").kind == "clause-count-mismatch"
    assert check_formula("dimacs", "p cnf 1 1\n1 -2 0\n").kind == "literal-out-of-range"
    assert check_formula("dimacs", "c only\n").kind == "no-problem-line"
    assert check_formula("dimacs", "ERROR\np cnf 0 0\n").kind.startswith("stray-line")
    assert check_formula("dimacs", "").kind == "no-output"
    o = "* #variable= 2 #constraint= 1\n* c\n+1 x1 +1 ~x2 >= 1\n"
    assert check_formula("opb", o).ok and not check_formula("opb", o + "+1 x1 >= 1\n").ok
    assert [k for _, k, _ in formula_fragments("hello\np cnf 1 1\n1 0\n* #variable= 1\n+1 x1 >= 1 ;\n\\begin{align}\nc x\n 2 --\n^\n")] == \
        ["dimacs-problem-line", "dimacs-clause", "opb-header-line", "opb-constraint", "latex-structure", "comment-line"]
    assert not formula_fragments("usage:\n cnfgen [-h]\nCNFgen (1.0)\nExpected rbrace, found '-'  (at char 22), (line:3, col:4)\n")
    assert unshielded_lines("c ERROR: x\nc \n\nfatal: y\n", ("c",)) == ["fatal: y"]
    assert coarse(0, d, "", False, {}) == "SUCCESS" and coarse(0, "", "", False, {"o": d}) == "SUCCESS"
    assert coarse(0, "usage: x\n", "", False, {}) == "HELP" and coarse(0, "", "", False, {}) == "EXIT0-NO-FORMULA"
    assert coarse(0, "", "", False, {"o": ""}) == "EXIT0-NO-FORMULA"
    assert coarse(255, "", "c ERROR: x\n", False, {}) == "ERROR" and coarse(-1, "", "ERROR: x\n", False, {}) == "ERROR+unshielded"
    assert coarse(255, "c d\n", "", False, {}) == "ERROR+fragment+silent"
    assert coarse(1, "", TRACEBACK + "\n...", False, {}) == "CRASH" and coarse(None, "", "", True, {}) == "CRASH"

"""Independent reader of the OPB dialect that cnfgen documents.

Written from the documentation examples (`CNF.to_opb`, `OPB.to_opb`) and the
PB-competition format note they cite; shares no code with cnfgen.

    * #variable= 4 #constraint= 2          <- first line, mandatory
    * any text                             <- comment (a line starting with '*')
    +1 ~x1 +2 x4 >= 1                      <- constraint:  {coefficient literal} relation degree [;]
    +1 x3 +1 ~x4 = 1

coefficient, degree : [+-]?digits        literal : [~]x<positive integer without leading zero>
relation            : '>=' or '='

`read_opb(text)` returns an `OPBText` or a `Rejection` (never raises on text input):

    OPBText.variables, .constraints      the declared counts
    OPBText.rows                         [(terms, op, degree)]  terms = [(coefficient, literal)],
                                         literal a signed variable id, op '>=' or '=='
    OPBText.row_lines                    1-based line number of every row
    OPBText.comments                     [(line number, text after the '*')]
    OPBText.varnames                     {variable id: label} from '* varname x<id> <label>' comments

Lines end at '\\n', '\\r\\n' or a lone '\\r' (what a text-mode reader sees).  A line that is
neither a comment nor a constraint -- including an empty one -- is a rejection: nothing but
comments and constraints may appear in the file.
"""
import re

HEADER = re.compile(r"^\* #variable= (0|[1-9][0-9]*) #constraint= (0|[1-9][0-9]*)\s*$")
INTEGER = re.compile(r"^[+-]?[0-9]+$")
LITERAL = re.compile(r"^(~?)x([1-9][0-9]*)$")
VARNAME = re.compile(r"^ varname x([1-9][0-9]*) (.*)$", re.S)
LINE_END = re.compile(r"\r\n|\n|\r")


class Rejection:
    """Why a text is not an OPB file.  `kind` is a stable, value-free class of the reason."""

    def __init__(self, kind, reason, line=None, text=None):
        self.kind, self.reason, self.line, self.text = kind, reason, line, text

    def __bool__(self):
        return False

    def __repr__(self):
        where = "" if self.line is None else " (line %d: %r)" % (self.line, (self.text or "")[:80])
        return "Rejection[%s] %s%s" % (self.kind, self.reason, where)


class OPBText:
    def __init__(self):
        self.variables = self.constraints = None
        self.rows, self.row_lines, self.comments, self.varnames = [], [], [], {}

    def __repr__(self):
        return "OPBText(variables=%r, constraints=%r, rows=%d, comments=%d)" % (
            self.variables, self.constraints, len(self.rows), len(self.comments))


def split_lines(text):
    """Lines without their terminators; the text after the last terminator is a line only if
    it is not empty (a file normally ends with a terminator)."""
    lines = LINE_END.split(text)
    if lines and lines[-1] == "":
        lines.pop()
    return lines


def parse_constraint(line):
    """'+1 x1 +2 ~x3 >= 2 ;' -> (terms, op, degree) or a Rejection (without line number)."""
    tokens = line.split()
    if tokens and tokens[-1] == ";":
        tokens.pop()
    elif tokens and tokens[-1].endswith(";") and len(tokens[-1]) > 1:
        tokens[-1] = tokens[-1][:-1]
    if len(tokens) < 2:
        return Rejection("not-a-constraint", "a constraint needs a relation and a degree")
    rel, deg = tokens[-2], tokens[-1]
    if rel not in (">=", "="):
        return Rejection("not-a-constraint", "relation must be '>=' or '=', found %r" % rel)
    if not INTEGER.match(deg):
        return Rejection("not-a-constraint", "degree %r is not an integer" % deg)
    body = tokens[:-2]
    if len(body) % 2:
        return Rejection("not-a-constraint", "terms do not pair up into coefficient and literal")
    terms = []
    for i in range(0, len(body), 2):
        c, l = body[i], body[i + 1]
        if not INTEGER.match(c):
            return Rejection("not-a-constraint", "coefficient %r is not an integer" % c)
        m = LITERAL.match(l)
        if not m:
            return Rejection("not-a-constraint", "literal %r is not [~]x<id>" % l)
        v = int(m.group(2))
        terms.append((int(c), -v if m.group(1) else v))
    return terms, (">=" if rel == ">=" else "=="), int(deg)


def read_opb(text, check_counts=True):
    """Parse `text`; an `OPBText` on success, a `Rejection` otherwise."""
    if not isinstance(text, str):
        return Rejection("not-text", "OPB input must be a str")
    lines = split_lines(text)
    if not lines:
        return Rejection("no-header", "empty file: the '* #variable= n #constraint= m' line is missing")
    m = HEADER.match(lines[0])
    if not m:
        return Rejection("no-header", "first line is not '* #variable= n #constraint= m'", 1, lines[0])
    out = OPBText()
    out.variables, out.constraints = int(m.group(1)), int(m.group(2))
    out.comments.append((1, lines[0][1:]))
    for no, line in enumerate(lines[1:], start=2):
        if line.startswith("*"):
            out.comments.append((no, line[1:]))
            vm = VARNAME.match(line[1:])
            if vm:
                out.varnames[int(vm.group(1))] = vm.group(2)
            continue
        if line.strip() == "":
            return Rejection("stray-line", "empty line outside the comments", no, line)
        row = parse_constraint(line)
        if isinstance(row, Rejection):
            return Rejection("stray-line", "line is neither a comment nor a constraint: " + row.reason,
                             no, line)
        out.rows.append(row)
        out.row_lines.append(no)
    if check_counts:
        if len(out.rows) != out.constraints:
            return Rejection("constraint-count", "header declares %d constraints, the file has %d"
                             % (out.constraints, len(out.rows)))
        for (terms, _, _), no in zip(out.rows, out.row_lines):
            for _, l in terms:
                if abs(l) > out.variables:
                    return Rejection("variable-out-of-range", "variable x%d beyond the declared %d"
                                     % (abs(l), out.variables), no, lines[no - 1])
    return out

"""Row parser for the LaTeX renderings of cnfgen (snippet and full document).

Written from the documented examples of `to_latex()`; shares no code with cnfgen.
The formula sits in one or more `align` environments (a document is split into several,
separated by `\\pagebreak`); rows start with `&` and are separated by `\\\\`.

    clause row      & [\\land] \\left( LIT \\lor LIT ... \\right)      (snippet)
                    & LIT \\lor LIT ...                            (document)
                    & [\\land] \\square                             the empty clause
    constraint row  & [c]LIT + [c]LIT ... (\\geq | =) degree        c a coefficient > 1
                    & 0 (\\geq | =) degree                          empty sum
    empty formula   \\top  (no row)

    LIT   {name}                       positive literal
          \\overline{name}              negative literal
          {\\overline{head}tail}        negative literal of the variable named head+tail

Everything is scanned with brace depth, so a name may contain anything with balanced
braces -- separators included -- except that it must not itself start with `\\overline{`.
`name_is_parsable(name)` tells whether a name is inside that domain.  Names read back are
exact up to the placement of braces (see `bare_name`): compare `bare_name(a) == bare_name(b)`.

`read_latex(text)` (snippet) and `read_latex_document(text)` return a `LatexFormula` or a
`Rejection`; they never raise on text input.

    LatexFormula.kind     'cnf' | 'opb' | None (no row)
    LatexFormula.rows     cnf: [[(positive?, name), ...]]
                          opb: [([(coefficient, positive?, name), ...], '>=' | '==', degree)]
    LatexFormula.blocks   rows per align environment
    LatexFormula.top      True when the rendering is the empty-formula symbol
"""
import re


class Rejection:
    def __init__(self, kind, reason, where=None):
        self.kind, self.reason, self.where = kind, reason, where

    def __bool__(self):
        return False

    def __repr__(self):
        w = "" if self.where is None else " near %r" % (self.where[:80],)
        return "Rejection[%s] %s%s" % (self.kind, self.reason, w)


class LatexFormula:
    def __init__(self):
        self.kind, self.rows, self.blocks, self.top = None, [], [], False
        self.title = None
        self.declared = None          # (variables, rows) announced by a document

    def __repr__(self):
        return "LatexFormula(kind=%r, rows=%d, blocks=%r, top=%r)" % (
            self.kind, len(self.rows), self.blocks, self.top)


class _Bad(Exception):
    def __init__(self, kind, reason, where=None):
        Exception.__init__(self, reason)
        self.rej = Rejection(kind, reason, where)


def name_is_parsable(name):
    """Balanced braces, no `\\overline{` at the start, no row/line structure of its own."""
    if not isinstance(name, str) or name.startswith("\\overline{"):
        return False
    depth = 0
    for ch in name:
        if ch == "{":
            depth += 1
        elif ch == "}":
            depth -= 1
            if depth < 0:
                return False
    return depth == 0


def bare_name(name):
    """Name without its braces: what two spellings of a name must agree on.

    cnfgen overlines the head of a name (the part before the first `_` or `^`) by inserting a
    closing brace there; when that position is nested inside a group of the name
    (`{p_{1,1}}^1` -> `{\\overline{{p}_{1,1}}^1}`) one brace of the name changes place.  The
    typeset result is the same, the text is not, so names are compared without braces."""
    return name.replace("{", "").replace("}", "")


def _group_end(s, i):
    """s[i] == '{' -> index of the matching '}'."""
    depth = 0
    for j in range(i, len(s)):
        ch = s[j]
        if ch == "{":
            depth += 1
        elif ch == "}":
            depth -= 1
            if depth == 0:
                return j
    raise _Bad("unbalanced-braces", "a '{' is never closed", s[i:i + 40])


def tokenize(s):
    """Depth-0 tokens of an align body."""
    out, i, n = [], 0, len(s)
    while i < n:
        ch = s[i]
        if ch in " \t\n\r":
            i += 1
        elif ch == "{":
            j = _group_end(s, i)
            out.append(("group", s[i + 1:j]))
            i = j + 1
        elif ch == "\\":
            if s.startswith("\\\\", i):
                out.append(("rowsep", None))
                i += 2
                continue
            j = i + 1
            while j < n and s[j].isalpha():
                j += 1
            word = s[i + 1:j]
            if not word:
                raise _Bad("unexpected-text", "stray backslash", s[i:i + 20])
            if word in ("left", "right"):
                want = "(" if word == "left" else ")"
                if j < n and s[j] == want:
                    out.append(("cw", word))
                    i = j + 1
                    continue
                raise _Bad("unexpected-text", "\\%s without its parenthesis" % word, s[i:i + 20])
            out.append(("cw", word))
            i = j
        elif ch == "&":
            out.append(("amp", None))
            i += 1
        elif ch.isdigit() or (ch == "-" and i + 1 < n and s[i + 1].isdigit()):
            j = i + 1
            while j < n and s[j].isdigit():
                j += 1
            out.append(("num", s[i:j]))
            i = j
        elif ch in "+=":
            out.append(("sym", ch))
            i += 1
        else:
            raise _Bad("unexpected-text", "character %r outside any literal" % ch, s[i:i + 20])
    return out


def _literal(tokens, k):
    """tokens[k:] starts with a literal -> (positive?, name, next k)."""
    if k >= len(tokens):
        raise _Bad("bad-row", "a literal is missing at the end of the row")
    kind, val = tokens[k]
    if kind == "cw" and val == "overline":
        if k + 1 < len(tokens) and tokens[k + 1][0] == "group":
            return False, tokens[k + 1][1], k + 2
        raise _Bad("bad-row", "\\overline without an argument")
    if kind == "group":
        if val.startswith("\\overline{"):
            j = _group_end(val, len("\\overline"))
            return False, val[len("\\overline{"):j] + val[j + 1:], k + 1
        return True, val, k + 1
    raise _Bad("bad-row", "expected a literal, found %r" % (val if val is not None else kind,))


def parse_row(tokens):
    """Tokens of one row, without the leading '&' -> ('cnf', lits) | ('opb', (terms, op, degree))."""
    is_pb = any(t == ("cw", "geq") or t == ("sym", "=") for t in tokens)
    if not is_pb:
        k = 0
        if tokens and tokens[0] == ("cw", "land"):
            k = 1
        rest = tokens[k:]
        if rest == [("cw", "square")]:
            return "cnf", []
        if rest and rest[0] == ("cw", "left"):
            if rest[-1] != ("cw", "right"):
                raise _Bad("bad-row", "\\left( without \\right)")
            rest = rest[1:-1]
        if not rest:
            raise _Bad("bad-row", "row without content")
        lits, k = [], 0
        while True:
            pos, name, k = _literal(rest, k)
            lits.append((pos, name))
            if k == len(rest):
                return "cnf", lits
            if rest[k] != ("cw", "lor"):
                raise _Bad("bad-row", "literals must be separated by \\lor")
            k += 1
    # pseudo-Boolean row
    if len(tokens) < 3 or tokens[-1][0] != "num":
        raise _Bad("bad-row", "constraint row must end with relation and integer bound")
    rel = tokens[-2]
    if rel == ("cw", "geq"):
        op = ">="
    elif rel == ("sym", "="):
        op = "=="
    else:
        raise _Bad("bad-row", "constraint row must end with relation and integer bound")
    degree = int(tokens[-1][1])
    lhs = tokens[:-2]
    if lhs == [("num", "0")]:
        return "opb", ([], op, degree)
    terms, k = [], 0
    if not lhs:
        raise _Bad("bad-row", "constraint row without left hand side")
    while True:
        coef = 1
        if lhs[k][0] == "num":
            if lhs[k][1].startswith("-"):
                raise _Bad("bad-row", "negative coefficient")
            coef = int(lhs[k][1])
            k += 1
        pos, name, k = _literal(lhs, k)
        terms.append((coef, pos, name))
        if k == len(lhs):
            return "opb", (terms, op, degree)
        if lhs[k] != ("sym", "+"):
            raise _Bad("bad-row", "terms must be separated by +")
        k += 1
        if k >= len(lhs):
            raise _Bad("bad-row", "dangling +")


def parse_body(body, out):
    """One align body appended to `out`."""
    tokens = tokenize(body)
    if tokens == [("cw", "top")]:
        out.top = True
        out.blocks.append(0)
        return
    if not tokens:
        raise _Bad("empty-align", "align environment without content")
    rows, cur = [], None
    for t in tokens:
        if t[0] == "amp":
            if cur is not None:
                raise _Bad("bad-row", "second & inside one row")
            cur = []
        elif t[0] == "rowsep":
            if cur is None:
                raise _Bad("bad-row", "row separator without a row")
            rows.append(cur)
            cur = None
        else:
            if cur is None:
                raise _Bad("bad-row", "text before the & of its row")
            cur.append(t)
    if cur is None:
        raise _Bad("bad-row", "row separator after the last row")
    rows.append(cur)
    for r in rows:
        kind, row = parse_row(r)
        if out.kind is None:
            out.kind = kind
        elif out.kind != kind:
            raise _Bad("mixed-rows", "clause rows and constraint rows in one formula")
        out.rows.append(row)
    out.blocks.append(len(rows))


BEGIN, END = "\\begin{align}", "\\end{align}"


def _align_blocks(text):
    """[(body, text before it)] and the text after the last block."""
    blocks, pos = [], 0
    while True:
        b = text.find(BEGIN, pos)
        if b < 0:
            return blocks, text[pos:]
        e = text.find(END, b + len(BEGIN))
        if e < 0:
            raise _Bad("unbalanced-align", "\\begin{align} without \\end{align}")
        body = text[b + len(BEGIN):e]
        if BEGIN in body:
            raise _Bad("unbalanced-align", "nested \\begin{align}")
        blocks.append((body, text[pos:b]))
        pos = e + len(END)


def _formula_from_blocks(blocks, tail, first_gap_free):
    out = LatexFormula()
    if not blocks:
        raise _Bad("no-align", "no align environment")
    for i, (body, before) in enumerate(blocks):
        if i == 0:
            if not first_gap_free and before.strip():
                raise _Bad("unexpected-text", "text before the formula", before.strip())
        elif before.strip() != "\\pagebreak":
            raise _Bad("unexpected-text", "align environments must be separated by \\pagebreak only",
                       before.strip())
        parse_body(body, out)
    if out.top and (len(blocks) > 1 or out.rows):
        raise _Bad("top-with-rows", "empty-formula symbol next to rows")
    return out, tail


def read_latex(text):
    """Snippet form (`to_latex()`): nothing but the align environment(s)."""
    if not isinstance(text, str):
        return Rejection("not-text", "LaTeX input must be a str")
    try:
        blocks, tail = _align_blocks(text)
        out, tail = _formula_from_blocks(blocks, tail, first_gap_free=False)
        if tail.strip():
            raise _Bad("unexpected-text", "text after the formula", tail.strip())
        return out
    except _Bad as e:
        return e.rej


LISTING = re.compile(r"\\begin\{lstlisting\}.*?\\end\{lstlisting\}", re.S)
DECLARED = re.compile(r"\\noindent\\textbf\{(CNF|Pseudo-boolean formula) with (\d+) variables and and (\d+) "
                      r"(clauses|constraints):\}")


def read_latex_document(text):
    """Full document (`to_file(..., 'latex')`): the formula is the sequence of align
    environments of the document body; verbatim listings are not formula text."""
    if not isinstance(text, str):
        return Rejection("not-text", "LaTeX input must be a str")
    try:
        b = text.find("\\begin{document}")
        e = text.rfind("\\end{document}")
        if b < 0 or e < b:
            raise _Bad("no-document", "\\begin{document} ... \\end{document} missing")
        if text[e + len("\\end{document}"):].strip():
            raise _Bad("unexpected-text", "text after \\end{document}")
        body = text[b + len("\\begin{document}"):e]
        body = LISTING.sub("", body)
        blocks, tail = _align_blocks(body)
        out, tail = _formula_from_blocks(blocks, tail, first_gap_free=True)
        if tail.strip():
            raise _Bad("unexpected-text", "text between the formula and \\end{document}", tail.strip())
        m = re.search(r"\\title\{(.*?)\}\n\\author", body, re.S)
        out.title = m.group(1) if m else None
        d = DECLARED.findall(blocks[0][1])
        if d:
            out.declared = (int(d[-1][1]), int(d[-1][2]))
        return out
    except _Bad as e:
        return e.rej

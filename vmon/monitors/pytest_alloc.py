"""pytest plugin: run the repository's tests with the allocation hooks armed (C10, thorough tier)."""
import json
import os

from . import alloc


def pytest_sessionstart(session):
    alloc.install()
    alloc.S.armed += 1


def pytest_runtest_teardown(item):
    # formulas of one test do not outlive it: forget them so ids can be reused safely
    alloc.S.mentioned.clear()
    alloc.S.numvar.clear()
    alloc.S.keep.clear()


def pytest_sessionfinish(session, exitstatus):
    out = os.environ.get("VMON_ALLOC_REPORT")
    if out:
        with open(out, "w") as f:
            json.dump({"events": alloc.S.events, "findings": alloc.S.findings}, f)

"""Hook wrappers on the live code for C10 (DESIGN.md §3.3): which variables has every formula
object mentioned so far, which identifiers do new groups hand out, does the declared count ever
decrease.  Installed from outside by rebinding class attributes; armed only inside `watch()`."""
import contextlib


class State:
    def __init__(self):
        self.armed = 0
        self.mentioned = {}      # id(formula) -> set of variables mentioned by inserted clauses/constraints
        self.numvar = {}         # id(formula) -> last seen declared number of variables
        self.keep = []           # strong references so that ids stay unique while armed
        self.scanned = {}        # id(formula) -> number of stored rows already read by _catch_up
        self.events = {"clauses": 0, "constraints": 0, "groups": 0, "empty_groups": 0, "raises": 0}
        self.findings = []       # (kind, message)
        self.installed = False


S = State()


def _formula_of(obj):
    # CNF / OPB objects are their own VariablesManager formula; bare managers point to one
    return getattr(obj, "_formula", obj)


def _see(F):
    k = id(F)
    if k not in S.mentioned:
        S.mentioned[k] = set()
        S.numvar[k] = F.number_of_variables()
        S.keep.append(F)
    n = F.number_of_variables()
    if n < S.numvar[k]:
        S.findings.append(("numvar-decreased", "declared variables went from %d to %d" % (S.numvar[k], n)))
    S.numvar[k] = n
    return S.mentioned[k]


def _catch_up(F, m):
    """Clauses / constraints that reached the formula without passing the insertion hooks (a batch method that
    appends by itself): read what is stored beyond the last position looked at, through the sequence protocol."""
    k = id(F)
    try:
        total = len(F)
    except Exception:       # noqa: BLE001
        return
    start = S.scanned.get(k, 0)
    if total - start > 200000:
        start = total - 200000
    for i in range(start, total):
        try:
            row = F[i]
        except Exception:   # noqa: BLE001
            break
        if len(row) >= 2 and isinstance(row[-2], str):
            row = row[:-2]              # a constraint: relation and degree are not literals
        for t in row:
            if isinstance(t, int) and not isinstance(t, bool):
                m.add(abs(t))
            elif isinstance(t, tuple) and len(t) == 2 and isinstance(t[1], int):
                m.add(abs(t[1]))
    S.scanned[k] = total


def install():
    if S.installed:
        return
    from cnfgen.formula.basecnf import BaseCNF
    from cnfgen.formula.baseopb import BaseOPB
    from cnfgen.formula.variables import VariablesManager

    orig_cnf_add = BaseCNF.add_clause
    orig_opb_add = BaseOPB.add_clause
    orig_opb_con = BaseOPB.add_constraint
    orig_group = VariablesManager._add_variable_group
    orig_upd_c = BaseCNF.update_variable_number
    orig_upd_o = BaseOPB.update_variable_number

    def cnf_add(self, clause, check=True):
        if not S.armed:
            return orig_cnf_add(self, clause, check=check)
        before = len(self._clauses)
        orig_cnf_add(self, clause, check=check)
        m = _see(self)
        S.events["clauses"] += 1
        if len(self._clauses) == before + 1:
            for l in self._clauses[-1]:
                try:
                    m.add(abs(l))
                except TypeError:
                    pass

    def opb_add(self, clause, check=True):
        if not S.armed:
            return orig_opb_add(self, clause, check=check)
        before = len(self._constraints)
        orig_opb_add(self, clause, check=check)
        m = _see(self)
        S.events["constraints"] += 1
        if len(self._constraints) == before + 1:
            for t in self._constraints[-1][:-2]:
                try:
                    m.add(abs(t[1]))
                except (TypeError, IndexError):
                    pass

    def opb_con(self, constraint, check=True):
        if not S.armed:
            return orig_opb_con(self, constraint, check=check)
        before = len(self._constraints)
        orig_opb_con(self, constraint, check=check)
        m = _see(self)
        S.events["constraints"] += 1
        if len(self._constraints) == before + 1:
            for t in self._constraints[-1][:-2]:
                try:
                    m.add(abs(t[1]))
                except (TypeError, IndexError):
                    pass

    def add_group(self, vg):
        if not S.armed:
            return orig_group(self, vg)
        F = _formula_of(self)
        m = _see(F)
        _catch_up(F, m)
        try:
            ids = list(vg)
        except Exception:
            ids = []
        try:
            orig_group(self, vg)
        except Exception:
            S.events["raises"] += 1
            raise
        S.events["groups" if ids else "empty_groups"] += 1
        reused = [i for i in ids if i in m]
        if reused:
            S.findings.append(("group-reuses-mentioned-variable",
                               "a %s of %d variables was given identifier %d, which an earlier clause already mentions"
                               % (type(vg).__name__, len(ids), reused[0])))
        _see(F)

    def upd_c(self, new_value):
        r = orig_upd_c(self, new_value)
        if S.armed:
            _see(self)
        return r

    def upd_o(self, new_value):
        r = orig_upd_o(self, new_value)
        if S.armed:
            _see(self)
        return r

    BaseCNF.add_clause = cnf_add
    BaseOPB.add_clause = opb_add
    BaseOPB.add_constraint = opb_con
    VariablesManager._add_variable_group = add_group
    BaseCNF.update_variable_number = upd_c
    BaseOPB.update_variable_number = upd_o
    S.installed = True


@contextlib.contextmanager
def watch():
    """Arm the hooks for the dynamic extent of a monitored entry point; yields the list of findings."""
    install()
    start = len(S.findings)
    S.armed += 1
    try:
        yield S
    finally:
        S.armed -= 1
        if not S.armed:
            S.mentioned.clear()
            S.numvar.clear()
            S.keep.clear()
            S.scanned.clear()
    S.last = S.findings[start:]


def scan(F):
    """Final-state scan: every literal a non-zero int within the declared range (and positive int coefficients).
    Returns a list of (kind, message)."""
    out = []
    n = F.number_of_variables()
    if not isinstance(n, int) or isinstance(n, bool) or n < 0:
        return [("numvar-not-int", "declared number of variables is %r" % (n,))]
    if hasattr(F, "_constraints"):
        for idx, con in enumerate(F):
            for t in con[:-2]:
                c, l = t
                if type(c) is not int or c <= 0:
                    out.append(("coefficient", "constraint %d has coefficient %r" % (idx, c)))
                    return out
                if type(l) is not int or l == 0 or abs(l) > n:
                    out.append(("literal", "constraint %d has literal %r with %d declared variables" % (idx, l, n)))
                    return out
            if con[-2] not in (">=", "==") or type(con[-1]) is not int:
                out.append(("relation", "constraint %d ends with %r %r" % (idx, con[-2], con[-1])))
                return out
    else:
        for idx, cl in enumerate(F):
            for l in cl:
                if type(l) is not int or l == 0 or abs(l) > n:
                    out.append(("literal", "clause %d has literal %r with %d declared variables" % (idx, l, n)))
                    return out
    return out

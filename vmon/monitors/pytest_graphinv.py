"""pytest plugin: run the repository's tests with the C16 class invariants installed on the graph classes."""
import json
import os


def pytest_sessionstart(session):
    from vmon.props import C16
    C16.install_invariants()


def pytest_sessionfinish(session, exitstatus):
    from vmon.props import C16
    out = os.environ.get("VMON_GRAPHINV_REPORT")
    if out:
        with open(out, "w") as f:
            json.dump({"evaluations": C16._installed["evals"], "failures": C16._installed["failures"][:50]}, f)

"""icontract contracts for C19: arguments are snapshotted before a call (icontract.snapshot -> OLD)
and compared after it (icontract.ensure).  Conditions record what they see and return True: a
contract never raises through the code under test; the verdict is taken by the harness."""
import icontract


class ContractBroken(Exception):
    """Only raised if a condition function itself is faulty."""


FINDINGS = []          # (label, argument position/name, what changed)
EVALUATIONS = {"n": 0}


def is_formula(x):
    return hasattr(x, "header") and hasattr(x, "number_of_variables") and hasattr(x, "all_variable_labels")


def formula_state(F):
    body = [tuple(tuple(t) if isinstance(t, (list, tuple)) else t for t in c) for c in F]
    return ("formula", type(F).__name__, F.number_of_variables(), tuple(body),
            tuple(F.all_variable_labels()), tuple((k, str(v)) for k, v in F.header.items()))


def graph_state(G):
    import networkx
    import cnfgen.graphs as g
    if isinstance(G, g.BaseBipartiteGraph):
        L, R = G.left_order(), G.right_order()
        return ("bipartite", type(G).__name__, L, R, tuple(G.edges()), G.name,
                tuple(tuple(G.right_neighbors(u)) for u in range(1, L + 1)),
                tuple(tuple(G.left_neighbors(v)) for v in range(1, R + 1)))
    if isinstance(G, g.DirectedGraph):
        n = G.number_of_vertices()
        return ("digraph", n, tuple(G.edges()), G.name, G.is_dag(),
                tuple(tuple(G.successors(u)) for u in range(1, n + 1)),
                tuple(tuple(G.predecessors(u)) for u in range(1, n + 1)))
    if isinstance(G, g.Graph):
        n = G.number_of_vertices()
        return ("graph", n, tuple(G.edges()), G.name, tuple(tuple(G.neighbors(u)) for u in range(1, n + 1)))
    if isinstance(G, networkx.Graph):
        return ("nx", G.is_directed(), tuple((repr(v), repr(sorted(d.items()))) for v, d in G.nodes(data=True)),
                tuple((repr(u), repr(v), repr(sorted(d.items()))) for u, v, d in G.edges(data=True)),
                repr(sorted(G.graph.items())))
    return None


def state_of(x, depth=0):
    """A deep, comparable snapshot, or None for values that are not snapshotted (iterators, scalars...)."""
    if is_formula(x):
        return formula_state(x)
    gs = None
    try:
        gs = graph_state(x)
    except Exception:
        gs = None
    if gs is not None:
        return gs
    if isinstance(x, (list, tuple)) and depth < 3:
        return ("seq", type(x).__name__, tuple(id(e) for e in x),
                tuple(state_of(e, depth + 1) if isinstance(e, (list, tuple, dict)) else repr(e) for e in x))
    if isinstance(x, dict) and depth < 3:
        return ("dict", tuple((repr(k), repr(v)) for k, v in x.items()))
    return None


def _snap(_ARGS, _KWARGS):
    return [state_of(a) for a in _ARGS], {k: state_of(v) for k, v in _KWARGS.items()}


def describe_change(old, new):
    if old is None or new is None or old[0] != new[0]:
        return "changed kind"
    if old[0] == "formula":
        names = ("kind", "class", "number of variables", "clauses", "variable names", "header")
    elif old[0] == "seq":
        names = ("kind", "type", "element identity", "elements")
    else:
        return "%s changed: %r -> %r" % (old[0], old[1:4], new[1:4])
    for n, a, b in zip(names, old, new):
        if a != b:
            return "%s changed: %r -> %r" % (n, str(a)[:160], str(b)[:160])
    return "changed"


def contracted(fn, label):
    """fn wrapped with snapshot + ensure on every positional and keyword argument."""
    def unchanged(_ARGS, _KWARGS, OLD):
        EVALUATIONS["n"] += 1
        olda, oldk = OLD.state
        for i, (o, a) in enumerate(zip(olda, _ARGS)):
            if o is not None:
                n = state_of(a)
                if n != o:
                    FINDINGS.append((label, "argument %d" % i, describe_change(o, n)))
        for k, o in oldk.items():
            if o is not None:
                n = state_of(_KWARGS[k])
                if n != o:
                    FINDINGS.append((label, "argument %s" % k, describe_change(o, n)))
        return True
    return icontract.snapshot(_snap, name="state")(icontract.ensure(unchanged, error=ContractBroken)(fn))

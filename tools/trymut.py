#!/usr/bin/env python3
"""tools/trymut.py PID[,PID..] FILE OLD NEW [FILE OLD NEW ...] [--tier T]
Scratch copy of /repo with textual replacements applied (each OLD must occur exactly once),
runs the named checks against it, removes the copy."""
import os, shutil, subprocess, sys, tempfile
args = sys.argv[1:]
tier = "quick"
if "--tier" in args:
    i = args.index("--tier"); tier = args[i + 1]; del args[i:i + 2]
pids = args[0].split(","); reps = args[1:]
d = tempfile.mkdtemp(prefix="mutrepo.", dir=os.environ.get("TMPDIR", "/tmp"))
try:
    subprocess.check_call(["rsync", "-a", "--exclude", ".git", "--exclude", "__pycache__", "--exclude", "docs",
                           "--exclude", "www", "/repo/", d + "/"])
    for i in range(0, len(reps), 3):
        f, old, new = reps[i:i + 3]
        p = os.path.join(d, f); s = open(p).read()
        if s.count(old) != 1:
            sys.exit("OLD occurs %d times in %s" % (s.count(old), f))
        open(p, "w").write(s.replace(old, new))
    env = dict(os.environ, VERIF_REPO=d, VERIF_EVIDENCE_DIR=os.path.join(d, ".evidence"))
    here = os.path.dirname(os.path.dirname(os.path.abspath(__file__)))
    for pid in pids:
        r = subprocess.run([os.path.join(here, "check"), pid, "--tier", tier], env=env, capture_output=True, text=True)
        lines = r.stdout.strip().splitlines()
        print("\n".join(l[:300] for l in lines[:12] + (["..."] if len(lines) > 14 else []) + lines[-2:]))
        print("%s rc=%d" % (pid, r.returncode))
        if r.returncode not in (0, 1):
            print(r.stderr[-1500:])
finally:
    shutil.rmtree(d, ignore_errors=True)

#!/bin/sh
# tools/sweep.sh <tier> <seed> [<seed> ...]  -- runs every registered check; prints one line per (check, seed)
# Evidence files are written to a scratch directory so that committed evidence is not disturbed.
TIER="$1"; shift
cd "$(dirname "$0")/.."
IDS=$(python3 -c "import json; print(' '.join(c['property_id'] for c in json.load(open('MANIFEST.json'))['checks']))")
E=$(mktemp -d "${TMPDIR:-/tmp}/sweep.XXXXXX")
for S in "$@"; do
  for ID in $IDS; do
    START=$(date +%s)
    OUT=$(VERIF_SEED=$S VERIF_EVIDENCE_DIR="$E" ./check "$ID" --tier "$TIER" 2>&1)
    RC=$?
    END=$(date +%s)
    echo "$ID seed=$S tier=$TIER rc=$RC $((END-START))s  $(echo "$OUT" | grep -c '^VIOLATION') violations $(echo "$OUT" | grep -c '^INCONCLUSIVE') inconclusive"
    if [ $RC -ne 0 ]; then echo "$OUT" | grep -v Warning | grep -A2 '^VIOLATION\|^INCONCLUSIVE' | head -20; fi
  done
done
rm -rf "$E"

#!/usr/bin/env python3
"""Regenerates MANIFEST.json from the table below (keeps it valid by construction)."""
import json, os
HERE = os.path.dirname(os.path.dirname(os.path.abspath(__file__)))

CHECKS = {
 "C04": dict(
    technique="runtime monitoring: every builder call executed on a fresh formula, model set by truth table vs. the stated arithmetic/functional condition evaluated per assignment",
    text="Exploration: all literal lists up to length 5 (quick) / 7 (thorough) with every polarity pattern, container type, operator and constant -2..n+2 are executed for CNF and OPB parents and decided over all 2^n assignments; mappings up to 3x3 with every sparse domain up to 6 possible pairs, binary mappings up to 3 -> 11; normalize_opb on 20k/200k seeded constraints.  Held means: no executed call disagreed with the arithmetic condition.",
    note="Trusts vmon/tt.py (self-checked against a naive evaluator on every start) and, for mappings, the group's index->variable call (C11).  Says nothing about lengths beyond the enumerated bound.",
    design="5/C04"),
}

NOT_APPLICABLE = []

def main():
    props = [json.loads(l)["id"] for l in open(os.path.join(HERE, "properties.jsonl"))]
    checks = []
    for pid in props:
        if pid not in CHECKS:
            continue
        c = CHECKS[pid]
        checks.append({
            "property_id": pid,
            "quick_cmd": "./check %s --tier quick" % pid,
            "thorough_cmd": "./check %s --tier thorough" % pid,
            "evidence_file": "/verif/evidence/%s.json" % pid,
            "replay_cmd_template": "./check %s --replay {path}" % pid,
            "engine": "vmon",
            "level_claimed": {"category": "exploration", "text": c["text"], "design_ref": "DESIGN.md §" + c["design"]},
            "level_note": c["note"],
            "technique": c["technique"],
        })
    claimed = {c["property_id"] for c in checks}
    na = [x for x in NOT_APPLICABLE if x["property_id"] not in claimed]
    for pid in props:
        if pid not in claimed and pid not in {x["property_id"] for x in na}:
            na.append({"property_id": pid, "reason": "check not built yet (in progress); the technique applies, see DESIGN.md §5"})
    hooks = json.load(open(os.path.join(HERE, "tools", "hooks.json")))
    m = {
        "version": 1,
        "setup_cmd": "./setup.sh",
        "hooks": hooks,
        "engines": [{"name": "vmon", "path": "/verif/vmon", "serves_properties": sorted(claimed),
                     "kind_free_text": "runtime monitoring framework: seeded/enumerated workloads drive the real code from /repo's working tree in 16 worker processes; monitors (truth-table oracle, reference models, contracts, hook wrappers, shadow models, event traces) decide each execution; three-valued verdicts; evidence counts what the monitors observed"}],
        "checks": checks,
        "not_applicable": na,
        "notes": "All checks import cnfgen from /repo's working tree at run time (no build step). Exit 0 held / 1 VIOLATION / 2 INCONCLUSIVE (a deciding monitor observed nothing, harness error or watchdog). known_findings.json is read-only at run time.",
    }
    with open(os.path.join(HERE, "MANIFEST.json"), "w") as f:
        json.dump(m, f, indent=1)
        f.write("\n")
    try:
        import jsonschema
        jsonschema.validate(m, json.load(open(os.path.join(HERE, "schemas", "MANIFEST.schema.json"))))
        print("MANIFEST.json valid;", len(checks), "checks,", len(na), "not claimed")
    except ImportError:
        print("written (jsonschema not importable here)")

main()

#!/usr/bin/env python3
"""Regenerates MANIFEST.json from the table below (keeps it valid by construction)."""
import json, os
HERE = os.path.dirname(os.path.dirname(os.path.abspath(__file__)))

CHECKS = {
 "C01": dict(
    technique="runtime monitoring: real generators vs reference object enumerators; exact model sets by truth table through decoded variable names; sampled witnesses/near misses beyond the cap",
    text="Exploration: php (all m,n<=4 x functional x onto), graph php and subset cardinality on every bipartite graph with sides <= 3, binary php, relativized php (m,t,n<=3), counting, perfect matching on every graph with <= 5 vertices, clique-colouring, each under CNF and OPB classes and with cnfgen and networkx graph objects, decided over all 2^n assignments (n <= 18 quick / 22 thorough): models(F) == set of documented objects, hence satisfiable iff an object exists and one model per object.  Larger instances: random objects must satisfy, one-condition-broken near misses must falsify.  Also: binary php with 2^16..2^18 holes on sampled placements (clauses grouped by variable set), networkx bipartite inputs whose right side was inserted first / interleaved and whose edges are listed right-to-left, and a state-leak adversary (vmon/pollute.py) that edits every graph the library's factories hand out before each case.  Graph arguments also as objects of a user's own subclass with computed edges (vmon/ducks.py); graph histories include insertion batches refused half-way.",
    note="Trusts vmon/tt.py and the object enumerators written from the docstrings (cross-checked against closed forms such as 'php unsat iff m>n').  Atoms are read from the variable names the formula reports.",
    design="5/C01"),
 "C02": dict(
    technique="runtime monitoring: real generators vs brute-force graph algorithms; exact (projected) model sets by truth table, model counts vs witness counts",
    text="Exploration: Tseitin (every charge vector incl. short/long/non-boolean), k-colouring, even colouring, dominating set (both encodings, projection on the set variables), tiling, isomorphism/automorphism, (induced) subgraph, clique (unary and binary, +-symmetry breaking), Ramsey witness, on every simple graph with <= 4 vertices and seeded 5/6-vertex graphs, CNF and OPB, cnfgen and networkx inputs; model set compared object by object with brute-force witnesses (so counts such as 2^(|E|-|V|+c) and #isomorphisms are implied and the Tseitin closed form is asserted).  Also: Tseitin charges as tuple / iterator / generator; families called again on one Graph object after degree-preserving edge switches and edge removals; the state-leak adversary before each case.  Graph arguments also as user-subclass objects with computed edges; histories include refused batches and removals of non-edges with non-vertex endpoints.",
    note="Trusts vmon/tt.py and the brute-force algorithms in C02.py.",
    design="5/C02"),
 "C03": dict(
    technique="runtime monitoring: truth-table unsatisfiability / colouring enumeration under the cap plus clause-set comparison with independent named-atom axiom generators at every size",
    text="Exploration: ordering principles (5 variants x plant) for N<=5 and on every graph with <= 4 vertices, pebbling on every DAG with <= 5 vertices, stone / sparse stone formulas, CPLS, Pitfall under several RNG states, Ramsey numbers, van der Waerden (2-3 colours, lengths 1..4), Pythagorean triples: exact unsatisfiability or model-set equality with enumerated orders/colourings; clauses as sets of named literals equal to a reference axiom generator, also at large sizes (op 12, pyramids, cpls 4 4 4, ptn 200).  Also: OrderingPrinciple(257, planted) with 5.6 million clauses evaluated on ten total orders in one pass; the state-leak adversary (memoised graph factories) before each case.  Graph / DAG / bipartite arguments also as user-subclass objects with computed edges.",
    note="Reference axiom generators are re-statements of the docstrings, validated semantically only under the cap.  Pitfall: hard part, gadget locality, easy part and unsatisfiability only (pipe/tail gadgets have no independent specification offline).",
    design="5/C03"),
 "C04": dict(
    technique="runtime monitoring: every builder call executed on a fresh formula, model set by truth table vs. the stated arithmetic/functional condition evaluated per assignment",
    text="Exploration: all literal lists up to length 5 (quick) / 7 (thorough) with every polarity pattern, container type, operator and constant -2..n+2 are executed for CNF and OPB parents and decided over all 2^n assignments; mappings up to 3x3 with every sparse domain up to 6 possible pairs, binary mappings up to 3 -> 11; normalize_opb on 20k/200k seeded constraints.  Held means: no executed call disagreed with the arithmetic condition.  Also: before force_* the caller edits every list the binary mapping hands out (forbid(i,j), f(i,None)).  Builders also run on deep copies and pickle round trips of a formula (nothing may land in the original); sparse mapping domains also as user-subclass bipartite graphs, one of them listing neighbours in its own order.",
    note="Trusts vmon/tt.py (self-checked against a naive evaluator on every start) and, for mappings, the group's index->variable call (C11).  Says nothing about lengths beyond the enumerated bound.",
    design="5/C04"),
 "C05": dict(
    technique="runtime monitoring: gadget functions written on truth-table masks give each original variable a derived table; F over derived tables vs exact model set of the transformed formula",
    text="Exploration: every CNF with <= 2 variables (+ unused third) and <= 2 clauses of width <= 2 and seeded CNFs up to 4 variables x every transformation (xor, or, maj, eq, neq, one, exact/atleast/atmost/anybut with every K in -1..N+1, ite, lift, flip) under 16/20 new variables; xor/maj compression with every graph up to 8 possible edges and seeded larger; library calls and the '-T' command-line spelling; variable counts against the documented k*n, 3n, 2k*n, |R|, n.  Also: gadgets with 12-20 inputs on unit-clause formulas (sampled, clauses grouped by variable set); compression graphs given as cnfgen graph with edges added twice, networkx Graph, networkx MultiGraph and dot file listing edges twice.  Compression graphs also as user-subclass objects; t2(T) judged against T after the owner edited F and T = t1(F).",
    note="Trusts vmon/tt.py and the gadget definitions in C05.py (majority = at least half, lifting = exactly one selector and the selected copy).",
    design="5/C05"),
 "C06": dict(
    technique="runtime monitoring: strict line-classifying reference DIMACS reader; every writer route read back through every reader route; mutated / grammar-generated / junk texts classed MUST-REJECT / determined / unknown",
    text="Exploration: hand-built formulas (0..40 variables, empty formula, empty clauses, unused variables, hostile header values and names incl. LF/CR/CRLF), 61 family command lines and transformation chains, header x varnames combinations, all write routes (to_dimacs, to_file to StringIO/path/handle/stdout, cnfgen -q/-v/--varnames/-o, kthlist2pebbling) and read routes (from_file on StringIO/path/handle/stdin, cnfgen dimacs, cnfshuffle).  Output lines must be comment / the problem line with true counts / the next clause; ~20k (quick) texts from 45 mutation kinds: only ValueError may be raised, a must-reject text is never accepted, an accepted text equals its reference reading.  Also: export histories whose edits are calls of every linear / cardinality / parity builder, including trivially true ones that only raise the variable count.  Valid files read by name under 25 file names (compression suffixes, no extension, other formats' extensions); exports of user-subclass formulas that present other rows than their inherited table holds.",
    note="Trusts vmon/refmodels/c06_dimacs.py (self-checked on 30 fixed texts incl. the doctest examples).  Texts the writer would not produce may be refused; only their reading, if accepted, is judged.",
    design="5/C06"),
 "C07": dict(
    technique="runtime monitoring: the same (argv, seed) in fresh processes that differ in PYTHONHASHSEED and working directory, byte comparison of stdout and saved files; in-process RNG event trace checked against 'no draw before seed(s)'",
    text="Exploration: ~690 command lines covering every source of randomness (random families, random graph arguments and modifiers, save, shuffle / compression transformations, cnfgen, pbgen, cnfshuffle, quiet and verbose) x seeds {0, 1, 42, -7, 2^40}: quick runs a rotating quarter in 3 fresh processes each (hash seeds 0/1/random; cwd /repo, /, a fresh directory outside any git tree) and all of them twice in-process under different ambient RNG states with the RNG tap; thorough runs everything in 4 processes per seed.  Library samplers called twice per seed.  Any 0x... address in the output is flagged.  Also: bipartite graph files without (or with partial) side attributes, run under ten hash seeds: accepted or refused, but identically.  Some groups also run under two pinned wall clocks (31 Dec / 1 Jan); input files with LaTeX-special characters in their names, rendered in every output format.",
    note="Hash seeds, directories and address layouts are sampled.  stderr is not compared.  The RNG tap swaps the class of random._inst (verified not to change the stream).",
    design="5/C07"),
 "C08": dict(
    technique="runtime monitoring: the same argv through cnfgen and pbgen in-process with equalised RNG state; names, counts and exact model sets (clause evaluator vs bit-sliced adder) compared; sampled assignments beyond the cap",
    text="Exploration: every formula sub-command of the shared corpus (all option combinations, deterministic and random graph constructions, several RNG seeds for random ones) built by both tools; number of variables, name lists and model sets must coincide; 46 realistic-size command lines compared on sampled assignments and one-flip neighbours of found models.  Also: the printed DIMACS / OPB texts of both programs read back by the reference readers and compared on sampled assignments, for the small corpus and for formulas with 2^8..2^17 (and 3*2^k) constraints.  Printed texts also compared with their headers on, for input files whose names contain every kind of line break.",
    note="Trusts vmon/tt.py.  Equal RNG state before both runs is what makes random families comparable.  Whether pbgen returns an OPB object at all is C17's question, not this one's.",
    design="5/C08"),
 "C09": dict(
    technique="runtime monitoring with a guarded certificate hook: Shuffle's attached witness (flips, permutation, clause map) is validated and the output reconstructed from it; hook-independent invariants and exhaustive renaming search for N <= 5",
    text="Exploration: CNFs from 0 to 300 variables / 1000 clauses, all 27 fixed/shuffle/explicit argument combinations (lists, tuples, ranges), invalid explicit arguments (must raise ValueError), seeded and adversarial RNG, cnfshuffle with all 8 switch combinations (object and text path) and '-T shuffle' through cnfgen.  Output == input renamed by the reported witness position by position; explicit/fixed arguments applied exactly; counts, width multiset and model count preserved; for N <= 5 all N!*2^N signed renamings searched.  Also: descending ranges as explicit permutations; keywords 'fixed'/'shuffle' computed at run time (equal, not identical, strings).  Inputs also as user-subclass formulas presenting other clauses than their table holds; argument validation repeated under python -O / -OO.",
    note="Hook CNFGEN_VERIF=1 in cnfgen/transformations/shuffle.py (add-only).  Literal order inside a clause is not judged.",
    design="5/C09"),
 "C10": dict(
    technique="runtime monitoring: hook wrappers on clause/constraint insertion, group creation and variable-count updates armed around every monitored entry point; final-state scan; documented closed-form counts",
    text="Exploration: 47 library entries at realistic sizes under CNF and OPB classes, transformation chains of length 0-3 (sized so that substitution blow-up stays bounded), ~600 command lines (realistic and small corpora, cnfgen with -T chains and pbgen), 3200 random interleavings of group creation / checked clause insertion / variable-count raises per run.  Observed: every inserted clause's variables, every identifier a new group receives (must not be among those already mentioned), monotonic declared count; returned formulas scanned literal by literal; declared count compared with the documented closed form.  Thorough also runs the repository's own tests with the hooks armed.  Also: one Graph object used by several groups / family calls with edits in between (one variable per current edge), label listings and transformed copies taken in the middle of a history.  Every family also built in a formula class that owns three variables beforehand and compared with the plain formula moved up; interleaving histories continue on deep copies / pickle round trips.",
    note="Hooks are installed from outside by rebinding class attributes (no repository edit).  Clauses inserted by *user* code with check=False are outside the statement.",
    design="5/C10"),
 "C11": dict(
    technique="runtime monitoring: histories of group creation / anonymous variables against a shadow allocation model; closed-form counts, index<->identifier inversion, wildcard patterns, out-of-domain probes, name alignment incl. 'c varname' lines",
    text="Exploration: all histories of length <= 2 over a 56-operation alphabet per class (CNF, OPB, bare VariablesManager), 15k (quick) / 225k (thorough) sampled longer histories with random shapes (zero ranges, empty graphs, k>n, loops, isolated vertices), large shapes after 50-400 anonymous variables, 22 cnfgen --varnames command lines.  Per group: contiguous fresh range, indices in identifier order, to_index(+-id) inverts, every wildcard subset equals the filter of the enumeration, out-of-domain indices/literals rejected; names judged after every operation.  Also: one Graph object reused for several groups after moving / removing / adding an edge; lazily sized blocks and binary mappings with 2^40..2^62 variables probed by closed form, including identifiers above 2^53.  Groups of 2^63 and more variables (refused) inside histories; bipartite groups on user-subclass graphs, also with their own neighbour order.",
    note="Trusts vmon/refmodels/c11_shapes.py (legal index sets and closed forms, cross-checked at start-up).  The label syntax is whatever the group reports.",
    design="5/C11"),
 "C12": dict(
    technique="runtime monitoring: independent OPB reader and LaTeX row parser applied to every rendering path; row-by-row comparison with the in-memory formula",
    text="Exploration: random CNF/OPB formulas (0..106 rows crossing the 35-row page split up to three pages, coefficients up to 10^30, every operator through normalisation, empty rows, hostile but brace-balanced names), enumerated tiny formulas (empty formula vs empty clause), 72 family command lines with their real names, every rendering path (to_opb, to_latex, to_file by format / extension / file object, cnfgen -of, pbgen, real processes), header and varnames on/off; comment shield with multi-line header values and names.  Also: header values that are lists, tuples, dicts, numbers, bytes and objects whose text spans lines; formulas with 2^8..2^18 rows and their neighbours (block-size arithmetic of buffered writers).  Renderings of user-subclass CNF / OPB formulas and of rows whose (coefficient, literal) pairs are lists.",
    note="Readers in vmon/refmodels/c12_*.py are trusted; LaTeX names are compared modulo brace placement; term order inside a row is not judged.",
    design="5/C12"),
 "C13": dict(
    technique="runtime monitoring: result shape + planted assignments + decoded linear system vs truth table, against a reference enumeration of compatible clauses/parities; bounded RNG adversary forces the dense sampler",
    text="Exploration: RandomKCNF/RandomKXOR for k in 0..4, n in 0..6, m from 0 to max+2 (every m in thorough), 0..3 planted total assignments, seeded and adversarial randomness (sparse sampler driven to exhaustion so the dense path is observed), plus the randkcnf/randkxor command lines.  Each call is judged for counts, distinctness, width, planted assignments, model set = solutions of the decoded system and 'ValueError exactly when infeasible'.  Also: the exact maximum (accepted) and maximum+1 (refused) for every k at n = 7..18 with zero and one planted total assignment; planted assignments listed in arbitrary literal order.  A few clauses / parities out of universes beyond 1e308 (k = n = 1024 ... n = 2^62).",
    note="Trusts the reference enumeration of compatible clauses (itertools) and vmon/tt.py.  Parities with k=0 are judged by clause count only.  Adversarial RNG answers are legal values, i.e. positive-probability outcomes.",
    design="5/C13"),
 "C14": dict(
    technique="runtime monitoring: round trips of enumerated and seeded graphs through every format and channel; reference readers for kthlist/DIMACS/matrix judge mutated and hostile texts; dag gate",
    text="Exploration: every simple graph and dag with <= 4 vertices, every digraph <= 3 vertices incl. loops, every bipartite graph with L+R <= 4, fixed 10-12 vertex graphs, seeded graphs with 0..15 vertices (half >= 10, isolated vertices, empty sides), in every supported format through StringIO / path / handle / from_file / command-line graph arguments / save; digraphs with back edges read as 'dag' must be refused; ~85 fixed hostile texts plus 1-3 stacked mutations of written files: only ValueError may escape, an accepted result must be the graph the reference derives.  Also: by-name round trips of graphs with non-ASCII names in child interpreters whose default text encoding is ASCII / not UTF-8.  Graphs built through an insertion batch refused half-way and as user-subclass objects; anonymous, spooled and fdopen'ed streams; graph names with quotes, backslashes and format keywords.",
    note="gml and dot parsing is networkx/pydot code: judged by round trip and exception discipline only.  Trusts vmon/refmodels/c14_readers.py.",
    design="5/C14"),
 "C15": dict(
    technique="runtime monitoring: every construction through make_graph_from_spec with arguments inside/at/outside the range, structural oracles and independent references, stage-by-stage option replay under equal RNG/adversary state, taps that observe rare sampler branches",
    text="Exploration: all simple/bipartite/dag constructions with enumerated arguments (gnm every m, glrm every m up to L*R+1, gnd/regular/glrd every degree incl. non-divisible, grid/torus 1-3 dimensions, ...), options plantclique/plantbiclique/addedges/splitedges from -1 to one past the maximum alone and combined, save in every format read back by independent strict readers, ~340 in-process and some real-process command lines with the graph decoded from the formula; random constructions under fair seeds and the bounded RNG adversary (retry exhaustion, sparse->dense switches observed by counters).  Verdict per request: promised structure or ValueError.  Also: graphs read from files named net{v2}, K{}, 100%, 'two words', ... as the base of every modifier; spelling invariance (integers written 07, +7, -0: a request refused in plain spelling is refused in any spelling, accepted ones give the same graph).  Every graph read from an oddly named file stored again in every format (also onto the input file itself, in another format) and read back.",
    note="Requests meetable but outside the documented domain (N=0, d=0, ...) are accepted either way.  networkx's own samplers draw from random._inst, which the adversary does not control.",
    design="5/C15"),
 "C16": dict(
    technique="runtime monitoring: history + executable set model compared on every public view after every operation; icontract class invariants on Graph/DirectedGraph/BipartiteGraph",
    text="Exploration: all operation histories of length <= 2 (quick) / <= 3 (thorough) over small alphabets with out-of-range arguments, plus seeded random histories of up to 60 operations from sizes 0..6, on the four graph classes and named constructions.  After every operation every public view (counts, edge listing, membership, neighbour lists, degrees, is_dag) is compared with a set model; refusals must leave no trace; networkx round trip at the end of every history.  networkx inputs relabelled with floats, fractions and other increasing numbers.",
    note="Trusts networkx for the conversion comparison.  A refused insertion is expected to raise (any exception type).  The icontract invariant records and never raises through the code under test.",
    design="5/C16"),
 "C17": dict(
    technique="runtime monitoring: reference dispatcher (help text -> library call) vs the tools in-process under equal RNG state; graphs taken from 'save'd files through independent readers; random options judged by their promise",
    text="Exploration: ~900 structured commands covering all 33 formula sub-commands with their option subsets, numeric grids, deterministic and random graph constructions, through cnfgen (formula_class=CNF) and pbgen (formula_class=OPB); -T chains of length 1-3 on deterministic bases (exact under RNG replay); graph files of every type/format given by extension and explicitly; dimacs sub-command; kthlist2pebbling vs 'peb'; -q/-v/--varnames/-o/-of on three tools.  Names equal as lists, clauses/constraints as multisets, formula class as documented.  Also: one file named by two graph arguments with 'save' onto it in between; kthlist2pebbling vs 'cnfgen peb' on 75 kthlist texts with control / separator characters inside lines.  Graph files with 0 and 1 vertices as first / second graph; output files named opb, tex, out.opb.bak, ... by absolute and relative name.",
    note="Saved files are read with vmon/refmodels/c15_ref.py.  Random ingredients (php M N D, subsetcard N d, op N d, tseitin N d / random charges, --sparse, --plant) are reconstructed from the formula and judged by what the option promises.",
    design="5/C17"),
 "C18": dict(
    technique="runtime monitoring: grammar-generated and k-edit-mutated command lines through the real main() of the four tools in-process, with taps on the parse phase and the escaping exception; outcome classifier backed by strict DIMACS/OPB/LaTeX readers; violations re-confirmed in real processes",
    text="Exploration: ~7.5k (quick) / ~75k (thorough) command lines per run: the live argparse tables (33 formula + 18 transformation sub-commands) instantiated with boundary pools (-1, 0, 1, 2, 3, 12, 1.5, x, empty string, 30-digit numbers), mutilated graph specifications, every scratch-file kind x slot (missing, directory, empty, binary, truncated, wrong format), -o into a missing directory, every help switch in every position, missing/surplus arguments, unknown options, broken -T chains, 1-3-edit mutants of valid command lines, cnfshuffle / kthlist2pebbling with hostile stdin and -i/-o.  Each run is classified SUCCESS (strict reader accepts the output, counts match) / HELP / CLI-ERROR (non-zero exit, no formula line anywhere, every stderr line behind the comment marker of the phase) / violation.  Also: /dev/stdin, /dev/fd/0 and a named pipe as the input file of real processes; oddly named ({}, %, blank) graph files followed by modifiers.  Real processes started with file descriptor 0 closed, and with a terminal as <stdout> for the help texts that go through $PAGER.",
    note="A violation is reported only after a real process reproduced its outcome class (a disagreement indicts the harness: inconclusive).  Commands that trip the CPU watchdog or the address-space limit are counted, not judged.  For parse-phase failures the tool's default marker is accepted (DESIGN 4.7).",
    design="5/C18"),
 "C19": dict(
    technique="runtime monitoring: icontract snapshot/ensure contracts on every monitored call (arguments deep-compared before/after), aliasing probes on results, header provenance checks",
    text="Exploration: 17 transformations (incl. Shuffle with explicit lists, compression with a graph) on 7 base formulas, all single steps and sampled chains up to length 4; every graph-taking family with cnfgen and networkx graphs under both classes; list-taking APIs (charges, shift patterns, planted assignments, builders incl. '!=', Shuffle arguments) and refused calls (arguments must be intact after the exception too).  Result != input object, input state unchanged, mutation of the result does not show in the input, header keeps description and entries and gains 'transformation 1..t' in order.  Also: intermediate formulas annotated by their owner between two steps of a chain.  Builders called with IntEnum / bool / large-int literals (identity and type of each element are snapshotted), on a formula subclass with a clause budget that refuses half-way, and with None among the literals.",
    note="'Keeps the original description' is read as contains.  Graph modifiers documented to work in place are not judged.  icontract does not evaluate postconditions after a raise: those calls are compared by the harness.",
    design="5/C19"),
 "C20": dict(
    technique="runtime monitoring with a scripted stand-in solver: fakesolver.py installed under all supported names in a scratch PATH speaks each I/O convention and output shape, logs what it answered; bridge verdicts compared with the log and with the truth table; temp-file ledger",
    text="Exploration: curated corner formulas, families and seeded CNFs (0..8 / 0..10 variables, 300 kB inputs) x solve()/is_satisfiable() x 11 names x invocation forms (name, flags, sameas, absolute path, default search over installed subsets) x ~60 output shapes (split v lines, comments, answer order, missing 0, minisat result files, UNKNOWN, no answer, garbage, non-zero exits, early exit).  Verdict and assignment must equal what the solver logged and satisfy the formula; failures must raise the documented error; created temp files == removed.  Also: solvers that write answer-like diagnostics ('s ...', 'v ...', 'solved in', 'version') to stderr, at every verbosity.",
    note="The fake solver decides by brute force and is cross-checked by vmon/tt.py (a disagreement is a harness error).  Garbage shapes are judged leniently: documented error or the conforming answer contained in the output.",
    design="5/C20"),
}

NOT_APPLICABLE = []

def main():
    props = [json.loads(l)["id"] for l in open(os.path.join(HERE, "properties.jsonl"))]
    checks = []
    for pid in props:
        if pid not in CHECKS:
            continue
        c = CHECKS[pid]
        checks.append({
            "property_id": pid,
            "quick_cmd": "./check %s --tier quick" % pid,
            "thorough_cmd": "./check %s --tier thorough" % pid,
            "evidence_file": "/verif/evidence/%s.json" % pid,
            "replay_cmd_template": "./check %s --replay {path}" % pid,
            "engine": "vmon",
            "level_claimed": {"category": "exploration", "text": c["text"], "design_ref": "DESIGN.md §" + c["design"]},
            "level_note": c["note"],
            "technique": c["technique"],
        })
    claimed = {c["property_id"] for c in checks}
    na = [x for x in NOT_APPLICABLE if x["property_id"] not in claimed]
    for pid in props:
        if pid not in claimed and pid not in {x["property_id"] for x in na}:
            na.append({"property_id": pid, "reason": "check not built yet (in progress); the technique applies, see DESIGN.md §5"})
    hooks = json.load(open(os.path.join(HERE, "tools", "hooks.json")))
    m = {
        "version": 1,
        "setup_cmd": "./setup.sh",
        "hooks": hooks,
        "engines": [{"name": "vmon", "path": "/verif/vmon", "serves_properties": sorted(claimed),
                     "kind_free_text": "runtime monitoring framework: seeded/enumerated workloads drive the real code from /repo's working tree in 16 worker processes; monitors (truth-table oracle, reference models, contracts, hook wrappers, shadow models, event traces) decide each execution; three-valued verdicts; evidence counts what the monitors observed"}],
        "checks": checks,
        "not_applicable": na,
        "notes": "All checks import cnfgen from /repo's working tree at run time (no build step). Exit 0 held / 1 VIOLATION / 2 INCONCLUSIVE (a deciding monitor observed nothing, harness error or watchdog). known_findings.json is read-only at run time.",
    }
    with open(os.path.join(HERE, "MANIFEST.json"), "w") as f:
        json.dump(m, f, indent=1)
        f.write("\n")
    try:
        import jsonschema
        jsonschema.validate(m, json.load(open(os.path.join(HERE, "schemas", "MANIFEST.schema.json"))))
        print("MANIFEST.json valid;", len(checks), "checks,", len(na), "not claimed")
    except ImportError:
        print("written (jsonschema not importable here)")

main()

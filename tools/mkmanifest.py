#!/usr/bin/env python3
"""Regenerates MANIFEST.json from the table below (keeps it valid by construction)."""
import json, os
HERE = os.path.dirname(os.path.dirname(os.path.abspath(__file__)))

CHECKS = {
 "C01": dict(
    technique="runtime monitoring: real generators vs reference object enumerators; exact model sets by truth table through decoded variable names; sampled witnesses/near misses beyond the cap",
    text="Exploration: php (all m,n<=4 x functional x onto), graph php and subset cardinality on every bipartite graph with sides <= 3, binary php, relativized php (m,t,n<=3), counting, perfect matching on every graph with <= 5 vertices, clique-colouring, each under CNF and OPB classes and with cnfgen and networkx graph objects, decided over all 2^n assignments (n <= 18 quick / 22 thorough): models(F) == set of documented objects, hence satisfiable iff an object exists and one model per object.  Larger instances: random objects must satisfy, one-condition-broken near misses must falsify.",
    note="Trusts vmon/tt.py and the object enumerators written from the docstrings (cross-checked against closed forms such as 'php unsat iff m>n').  Atoms are read from the variable names the formula reports.",
    design="5/C01"),
 "C02": dict(
    technique="runtime monitoring: real generators vs brute-force graph algorithms; exact (projected) model sets by truth table, model counts vs witness counts",
    text="Exploration: Tseitin (every charge vector incl. short/long/non-boolean), k-colouring, even colouring, dominating set (both encodings, projection on the set variables), tiling, isomorphism/automorphism, (induced) subgraph, clique (unary and binary, +-symmetry breaking), Ramsey witness, on every simple graph with <= 4 vertices and seeded 5/6-vertex graphs, CNF and OPB, cnfgen and networkx inputs; model set compared object by object with brute-force witnesses (so counts such as 2^(|E|-|V|+c) and #isomorphisms are implied and the Tseitin closed form is asserted).",
    note="Trusts vmon/tt.py and the brute-force algorithms in C02.py.  One known finding (RamseyWitnessFormula ignores s when k != s) is listed in known_findings.json.",
    design="5/C02"),
 "C03": dict(
    technique="runtime monitoring: truth-table unsatisfiability / colouring enumeration under the cap plus clause-set comparison with independent named-atom axiom generators at every size",
    text="Exploration: ordering principles (5 variants x plant) for N<=5 and on every graph with <= 4 vertices, pebbling on every DAG with <= 5 vertices, stone / sparse stone formulas, CPLS, Pitfall under several RNG states, Ramsey numbers, van der Waerden (2-3 colours, lengths 1..4), Pythagorean triples: exact unsatisfiability or model-set equality with enumerated orders/colourings; clauses as sets of named literals equal to a reference axiom generator, also at large sizes (op 12, pyramids, cpls 4 4 4, ptn 200).",
    note="Reference axiom generators are re-statements of the docstrings, validated semantically only under the cap.  Pitfall: hard part, gadget locality, easy part and unsatisfiability only (pipe/tail gadgets have no independent specification offline).",
    design="5/C03"),
 "C04": dict(
    technique="runtime monitoring: every builder call executed on a fresh formula, model set by truth table vs. the stated arithmetic/functional condition evaluated per assignment",
    text="Exploration: all literal lists up to length 5 (quick) / 7 (thorough) with every polarity pattern, container type, operator and constant -2..n+2 are executed for CNF and OPB parents and decided over all 2^n assignments; mappings up to 3x3 with every sparse domain up to 6 possible pairs, binary mappings up to 3 -> 11; normalize_opb on 20k/200k seeded constraints.  Held means: no executed call disagreed with the arithmetic condition.",
    note="Trusts vmon/tt.py (self-checked against a naive evaluator on every start) and, for mappings, the group's index->variable call (C11).  Says nothing about lengths beyond the enumerated bound.",
    design="5/C04"),
 "C05": dict(
    technique="runtime monitoring: gadget functions written on truth-table masks give each original variable a derived table; F over derived tables vs exact model set of the transformed formula",
    text="Exploration: every CNF with <= 2 variables (+ unused third) and <= 2 clauses of width <= 2 and seeded CNFs up to 4 variables x every transformation (xor, or, maj, eq, neq, one, exact/atleast/atmost/anybut with every K in -1..N+1, ite, lift, flip) under 16/20 new variables; xor/maj compression with every graph up to 8 possible edges and seeded larger; library calls and the '-T' command-line spelling; variable counts against the documented k*n, 3n, 2k*n, |R|, n.",
    note="Trusts vmon/tt.py and the gadget definitions in C05.py (majority = at least half, lifting = exactly one selector and the selected copy).",
    design="5/C05"),
 "C08": dict(
    technique="runtime monitoring: the same argv through cnfgen and pbgen in-process with equalised RNG state; names, counts and exact model sets (clause evaluator vs bit-sliced adder) compared; sampled assignments beyond the cap",
    text="Exploration: every formula sub-command of the shared corpus (all option combinations, deterministic and random graph constructions, several RNG seeds for random ones) built by both tools; number of variables, name lists and model sets must coincide; 46 realistic-size command lines compared on sampled assignments and one-flip neighbours of found models.",
    note="Trusts vmon/tt.py.  Equal RNG state before both runs is what makes random families comparable.  Whether pbgen returns an OPB object at all is C17's question, not this one's.",
    design="5/C08"),
 "C09": dict(
    technique="runtime monitoring with a guarded certificate hook: Shuffle's attached witness (flips, permutation, clause map) is validated and the output reconstructed from it; hook-independent invariants and exhaustive renaming search for N <= 5",
    text="Exploration: CNFs from 0 to 300 variables / 1000 clauses, all 27 fixed/shuffle/explicit argument combinations (lists, tuples, ranges), invalid explicit arguments (must raise ValueError), seeded and adversarial RNG, cnfshuffle with all 8 switch combinations (object and text path) and '-T shuffle' through cnfgen.  Output == input renamed by the reported witness position by position; explicit/fixed arguments applied exactly; counts, width multiset and model count preserved; for N <= 5 all N!*2^N signed renamings searched.",
    note="Hook CNFGEN_VERIF=1 in cnfgen/transformations/shuffle.py (add-only).  Literal order inside a clause is not judged.",
    design="5/C09"),
 "C10": dict(
    technique="runtime monitoring: hook wrappers on clause/constraint insertion, group creation and variable-count updates armed around every monitored entry point; final-state scan; documented closed-form counts",
    text="Exploration: 47 library entries at realistic sizes under CNF and OPB classes, transformation chains of length 0-3 (sized so that substitution blow-up stays bounded), ~600 command lines (realistic and small corpora, cnfgen with -T chains and pbgen), 3200 random interleavings of group creation / checked clause insertion / variable-count raises per run.  Observed: every inserted clause's variables, every identifier a new group receives (must not be among those already mentioned), monotonic declared count; returned formulas scanned literal by literal; declared count compared with the documented closed form.  Thorough also runs the repository's own tests with the hooks armed.",
    note="Hooks are installed from outside by rebinding class attributes (no repository edit).  Clauses inserted by *user* code with check=False are outside the statement.",
    design="5/C10"),
 "C12": dict(
    technique="runtime monitoring: independent OPB reader and LaTeX row parser applied to every rendering path; row-by-row comparison with the in-memory formula",
    text="Exploration: random CNF/OPB formulas (0..106 rows crossing the 35-row page split up to three pages, coefficients up to 10^30, every operator through normalisation, empty rows, hostile but brace-balanced names), enumerated tiny formulas (empty formula vs empty clause), 72 family command lines with their real names, every rendering path (to_opb, to_latex, to_file by format / extension / file object, cnfgen -of, pbgen, real processes), header and varnames on/off; comment shield with multi-line header values and names.",
    note="Readers in vmon/refmodels/c12_*.py are trusted; LaTeX names are compared modulo brace placement; term order inside a row is not judged.",
    design="5/C12"),
 "C13": dict(
    technique="runtime monitoring: result shape + planted assignments + decoded linear system vs truth table, against a reference enumeration of compatible clauses/parities; bounded RNG adversary forces the dense sampler",
    text="Exploration: RandomKCNF/RandomKXOR for k in 0..4, n in 0..6, m from 0 to max+2 (every m in thorough), 0..3 planted total assignments, seeded and adversarial randomness (sparse sampler driven to exhaustion so the dense path is observed), plus the randkcnf/randkxor command lines.  Each call is judged for counts, distinctness, width, planted assignments, model set = solutions of the decoded system and 'ValueError exactly when infeasible'.",
    note="Trusts the reference enumeration of compatible clauses (itertools) and vmon/tt.py.  Parities with k=0 are judged by clause count only.  Adversarial RNG answers are legal values, i.e. positive-probability outcomes.",
    design="5/C13"),
 "C15": dict(
    technique="runtime monitoring: every construction through make_graph_from_spec with arguments inside/at/outside the range, structural oracles and independent references, stage-by-stage option replay under equal RNG/adversary state, taps that observe rare sampler branches",
    text="Exploration: all simple/bipartite/dag constructions with enumerated arguments (gnm every m, glrm every m up to L*R+1, gnd/regular/glrd every degree incl. non-divisible, grid/torus 1-3 dimensions, ...), options plantclique/plantbiclique/addedges/splitedges from -1 to one past the maximum alone and combined, save in every format read back by independent strict readers, ~340 in-process and some real-process command lines with the graph decoded from the formula; random constructions under fair seeds and the bounded RNG adversary (retry exhaustion, sparse->dense switches observed by counters).  Verdict per request: promised structure or ValueError.",
    note="Requests meetable but outside the documented domain (N=0, d=0, ...) are accepted either way.  networkx's own samplers draw from random._inst, which the adversary does not control.",
    design="5/C15"),
 "C16": dict(
    technique="runtime monitoring: history + executable set model compared on every public view after every operation; icontract class invariants on Graph/DirectedGraph/BipartiteGraph",
    text="Exploration: all operation histories of length <= 2 (quick) / <= 3 (thorough) over small alphabets with out-of-range arguments, plus seeded random histories of up to 60 operations from sizes 0..6, on the four graph classes and named constructions.  After every operation every public view (counts, edge listing, membership, neighbour lists, degrees, is_dag) is compared with a set model; refusals must leave no trace; networkx round trip at the end of every history.",
    note="Trusts networkx for the conversion comparison.  A refused insertion is expected to raise (any exception type).  The icontract invariant records and never raises through the code under test.",
    design="5/C16"),
}

NOT_APPLICABLE = []

def main():
    props = [json.loads(l)["id"] for l in open(os.path.join(HERE, "properties.jsonl"))]
    checks = []
    for pid in props:
        if pid not in CHECKS:
            continue
        c = CHECKS[pid]
        checks.append({
            "property_id": pid,
            "quick_cmd": "./check %s --tier quick" % pid,
            "thorough_cmd": "./check %s --tier thorough" % pid,
            "evidence_file": "/verif/evidence/%s.json" % pid,
            "replay_cmd_template": "./check %s --replay {path}" % pid,
            "engine": "vmon",
            "level_claimed": {"category": "exploration", "text": c["text"], "design_ref": "DESIGN.md §" + c["design"]},
            "level_note": c["note"],
            "technique": c["technique"],
        })
    claimed = {c["property_id"] for c in checks}
    na = [x for x in NOT_APPLICABLE if x["property_id"] not in claimed]
    for pid in props:
        if pid not in claimed and pid not in {x["property_id"] for x in na}:
            na.append({"property_id": pid, "reason": "check not built yet (in progress); the technique applies, see DESIGN.md §5"})
    hooks = json.load(open(os.path.join(HERE, "tools", "hooks.json")))
    m = {
        "version": 1,
        "setup_cmd": "./setup.sh",
        "hooks": hooks,
        "engines": [{"name": "vmon", "path": "/verif/vmon", "serves_properties": sorted(claimed),
                     "kind_free_text": "runtime monitoring framework: seeded/enumerated workloads drive the real code from /repo's working tree in 16 worker processes; monitors (truth-table oracle, reference models, contracts, hook wrappers, shadow models, event traces) decide each execution; three-valued verdicts; evidence counts what the monitors observed"}],
        "checks": checks,
        "not_applicable": na,
        "notes": "All checks import cnfgen from /repo's working tree at run time (no build step). Exit 0 held / 1 VIOLATION / 2 INCONCLUSIVE (a deciding monitor observed nothing, harness error or watchdog). known_findings.json is read-only at run time.",
    }
    with open(os.path.join(HERE, "MANIFEST.json"), "w") as f:
        json.dump(m, f, indent=1)
        f.write("\n")
    try:
        import jsonschema
        jsonschema.validate(m, json.load(open(os.path.join(HERE, "schemas", "MANIFEST.schema.json"))))
        print("MANIFEST.json valid;", len(checks), "checks,", len(na), "not claimed")
    except ImportError:
        print("written (jsonschema not importable here)")

main()

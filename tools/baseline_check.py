#!/usr/bin/env python3
"""Runs the repository's pinned test command (guard off) and compares with /root/.vp/BASELINE.json stable_pass."""
import json, os, subprocess, sys, tempfile, xml.etree.ElementTree as ET
base = json.load(open("/root/.vp/BASELINE.json"))
out = tempfile.mktemp(suffix=".xml")
env = dict(os.environ); env.pop("CNFGEN_VERIF", None)
cmd = base["cmd"].replace("<file>", out)
subprocess.run(cmd, shell=True, env=env, stdout=subprocess.DEVNULL, stderr=subprocess.DEVNULL)
passed = set()
for tc in ET.parse(out).getroot().iter("testcase"):
    if not any(ch.tag in ("failure", "error", "skipped") for ch in tc):
        passed.add("%s::%s" % (tc.get("classname"), tc.get("name")))
os.unlink(out)
want = set(base["stable_pass"])
missing = sorted(want - passed)
print("stable_pass: %d, passed now: %d, missing: %d" % (len(want), len(want & passed), len(missing)))
for m in missing[:20]:
    print("  NOT PASSING:", m)
sys.exit(1 if missing else 0)

#!/bin/sh
# tools/subsweep.sh <tier> <seed> ID...  -- like sweep.sh for a subset of the checks
TIER="$1"; S="$2"; shift; shift
cd "$(dirname "$0")/.."
E=$(mktemp -d "${TMPDIR:-/tmp}/sweep.XXXXXX")
for ID in "$@"; do
  START=$(date +%s)
  OUT=$(VERIF_SEED=$S VERIF_EVIDENCE_DIR="$E" ./check "$ID" --tier "$TIER" 2>&1)
  RC=$?
  END=$(date +%s)
  echo "$ID seed=$S tier=$TIER rc=$RC $((END-START))s  $(echo "$OUT" | grep -c '^VIOLATION') violations $(echo "$OUT" | grep -c '^INCONCLUSIVE') inconclusive"
  if [ $RC -ne 0 ]; then echo "$OUT" | grep -v Warning | grep -A2 '^VIOLATION\|^INCONCLUSIVE' | head -20; fi
done
rm -rf "$E"

#!/usr/bin/env python3
"""tools/seeded_table.py <results-log> [--write]

Builds the table of DESIGN.md section 10.3 from the output of `tools/seeded.py seeded/*` (one line per change:
"C01-A | C01[quick]: rc=1 CAUGHT mechanism; ...") and each change's meta.json.  With --write the table between the
markers <!-- seeded-table:begin --> / <!-- seeded-table:end --> in DESIGN.md is replaced."""
import json, os, re, sys

HERE = os.path.dirname(os.path.dirname(os.path.abspath(__file__)))


def main():
    log = sys.argv[1]
    rows = {}
    for line in open(log):
        m = re.match(r"(C\d\d-[A-Z]) \|.*?(C\d\d)\[(\w+)\]: rc=(\d+) (\w+)\s*(.*)$", line.strip())
        if m:
            name, pid, tier, rc, verdict, mech = m.groups()
            if name in rows and rows[name][0] == "CAUGHT" and verdict != "CAUGHT":
                continue
            rows[name] = (verdict, mech.split(";")[0].strip() + (" (thorough tier only)" if tier == "thorough" else ""))
    out = ["| change | what it does (needs: see seeded/<id>/meta.json) | first mechanism reported by the property's own quick check |",
           "|---|---|---|"]
    missed = []
    for name in sorted(os.listdir(os.path.join(HERE, "seeded"))):
        meta = json.load(open(os.path.join(HERE, "seeded", name, "meta.json")))
        summary = " ".join(str(meta.get("summary", "")).split()).replace("|", "/")[:150]
        verdict, mech = rows.get(name, ("NOT-RUN", ""))
        if verdict != "CAUGHT":
            missed.append(name)
        out.append("| %s | %s | %s |" % (name, summary, ("`%s`" % mech).replace(" (thorough tier only)`", "` (thorough tier only)") if verdict == "CAUGHT" else verdict))
    text = "\n".join(out) + "\n"
    if "--write" in sys.argv:
        p = os.path.join(HERE, "DESIGN.md")
        s = open(p).read()
        a, b = "<!-- seeded-table:begin -->\n", "<!-- seeded-table:end -->\n"
        i, j = s.index(a) + len(a), s.index(b)
        open(p, "w").write(s[:i] + text + s[j:])
    else:
        sys.stdout.write(text)
    sys.stderr.write("%d changes, %d not caught: %s\n" % (len(out) - 2, len(missed), " ".join(missed)))


main()

#!/usr/bin/env python3
"""tools/merge_seeded_rows.py <log> ...  -- merge the rows of newly evaluated changes (output lines of tools/seeded.py)
into the seeded table of DESIGN.md section 10.3 without re-running the older changes."""
import json, os, re, sys
HERE = os.path.dirname(os.path.dirname(os.path.abspath(__file__)))
rows = {}
for log in sys.argv[1:]:
    for line in open(log):
        m = re.match(r"(C\d\d-[A-Z]) \|.*?(C\d\d)\[(\w+)\]: rc=(\d+) (\w+)\s*(.*)$", line.strip())
        if m:
            name, pid, tier, rc, verdict, mech = m.groups()
            if verdict == "CAUGHT":
                mech = re.split(r";| \| ", mech)[0].strip()
                own = name.startswith(pid)
                rows[name] = "`%s`%s%s" % (mech, "" if own else " (check %s; the change is outside %s's subject)" % (pid, name[:3]),
                                          " (thorough tier only)" if tier == "thorough" else "")
            elif name not in rows:
                rows[name] = verdict
p = os.path.join(HERE, "DESIGN.md")
s = open(p).read()
a, b = "<!-- seeded-table:begin -->\n", "<!-- seeded-table:end -->\n"
i, j = s.index(a) + len(a), s.index(b)
lines = s[i:j].strip("\n").split("\n")
head, body = lines[:2], {l.split("|")[1].strip(): l for l in lines[2:]}
for name, cell in rows.items():
    meta = json.load(open(os.path.join(HERE, "seeded", name, "meta.json")))
    summary = " ".join(str(meta.get("summary", "")).split()).replace("|", "/")[:150]
    body[name] = "| %s | %s | %s |" % (name, summary, cell)
out = head + [body[k] for k in sorted(body)]
open(p, "w").write(s[:i] + "\n".join(out) + "\n" + s[j:])
print(len(body), "rows;", [k for k in rows if "CAUGHT" not in rows[k] and not rows[k].startswith("`")])

#!/usr/bin/env python3
"""tools/seeded.py [--verify] [--tier T] [--checks C01,C02] <seeded-dir> [...]

For every seeded change directory (patch.diff, demo.py, meta.json): make a scratch copy of /repo,
apply the patch there, optionally verify it (pinned tests still pass, demo fails with / passes without
the change), then run the checks named in meta.json["property"] (or --checks) against the copy and
report whether a VIOLATION was raised.  Nothing is applied to /repo itself; the copy is removed."""
import json, os, shutil, subprocess, sys, tempfile, xml.etree.ElementTree as ET

HERE = os.path.dirname(os.path.dirname(os.path.abspath(__file__)))


def copy_repo():
    d = tempfile.mkdtemp(prefix="seeded.", dir=os.environ.get("TMPDIR", "/tmp"))
    subprocess.check_call(["rsync", "-a", "--exclude", ".git", "--exclude", "__pycache__", "--exclude", "www", "/repo/", d + "/"])
    return d


def passing_tests(repo):
    base = json.load(open("/root/.vp/BASELINE.json"))
    out = tempfile.mktemp(suffix=".xml")
    env = dict(os.environ)
    env.pop("CNFGEN_VERIF", None)
    cmd = base["cmd"].replace("cd /repo", "cd " + repo).replace("<file>", out)
    subprocess.run(cmd, shell=True, env=env, stdout=subprocess.DEVNULL, stderr=subprocess.DEVNULL)
    passed = set()
    try:
        for tc in ET.parse(out).getroot().iter("testcase"):
            if not any(ch.tag in ("failure", "error", "skipped") for ch in tc):
                passed.add("%s::%s" % (tc.get("classname"), tc.get("name")))
        os.unlink(out)
    except Exception:
        pass
    return passed, set(base["stable_pass"])


def run_demo(repo, demo):
    try:
        p = subprocess.run(["/venv/bin/python", demo], cwd=repo, capture_output=True, text=True, timeout=900,
                           env={k: v for k, v in os.environ.items() if k not in ("PYTHONPATH", "CNFGEN_VERIF")})
    except subprocess.TimeoutExpired:
        return -9, "demo timed out"
    return p.returncode, (p.stdout + p.stderr)[-400:]


def main():
    args = sys.argv[1:]
    verify = "--verify" in args
    if verify:
        args.remove("--verify")
    tier, checks = "quick", None
    if "--tier" in args:
        i = args.index("--tier"); tier = args[i + 1]; del args[i:i + 2]
    if "--checks" in args:
        i = args.index("--checks"); checks = args[i + 1].split(","); del args[i:i + 2]
    for sdir in args:
        sdir = os.path.abspath(sdir)
        meta = json.load(open(os.path.join(sdir, "meta.json")))
        patch = os.path.join(sdir, "patch.diff")
        demo = os.path.join(sdir, "demo.py")
        name = os.path.basename(sdir)
        clean = copy_repo()
        mut = copy_repo()
        try:
            r = subprocess.run(["patch", "-p1", "-s", "-i", patch], cwd=mut, capture_output=True, text=True)
            if r.returncode != 0:
                print("%s: PATCH DOES NOT APPLY: %s" % (name, (r.stdout + r.stderr)[-300:]))
                continue
            line = [name]
            if verify:
                passed, want = passing_tests(mut)
                line.append("tests:%s" % ("ok" if want <= passed else "BROKEN(%d missing)" % len(want - passed)))
                rc_m, out_m = run_demo(mut, demo)
                rc_c, out_c = run_demo(clean, demo)
                line.append("demo: with-change rc=%d, without rc=%d %s" % (rc_m, rc_c, "ok" if (rc_m != 0 and rc_c == 0) else "NOT-DISCRIMINATING"))
            props = checks or ([meta["property"]] if isinstance(meta["property"], str) else meta["property"])
            env = dict(os.environ, VERIF_REPO=mut, VERIF_EVIDENCE_DIR=os.path.join(mut, ".evidence"))
            for pid in props:
                r = subprocess.run([os.path.join(HERE, "check"), pid, "--tier", tier], env=env, capture_output=True, text=True)
                viol = [l for l in r.stdout.splitlines() if l.startswith("  mechanism:")]
                line.append("%s[%s]: rc=%d %s" % (pid, tier, r.returncode, "CAUGHT " + "; ".join(v.strip()[11:] for v in viol[:3]) if r.returncode == 1 else "MISSED" if r.returncode == 0 else "INCONCLUSIVE"))
            print(" | ".join(line))
            sys.stdout.flush()
        finally:
            shutil.rmtree(clean, ignore_errors=True)
            shutil.rmtree(mut, ignore_errors=True)


main()

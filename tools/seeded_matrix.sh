#!/bin/sh
# every seeded change against every registered check (quick tier): which checks catch which changes
cd "$(dirname "$0")/.."
IDS=$(python3 -c "import json; print(','.join(c['property_id'] for c in json.load(open('MANIFEST.json'))['checks']))")
for d in seeded/*/; do
  tools/seeded.py --checks "$IDS" "$d" 2>&1 | grep -v '^WARNING'
done

#!/bin/sh
# tools/import_seeded.sh <srcdir> <letters> C01 C05 ... : copy sub-agent output <srcdir>/<ID>/{patch,demo,meta}_<X> into /verif/seeded/<ID>-<X>/
SRC="$1"; LET="$2"; shift; shift
cd "$(dirname "$0")/.."
for ID in "$@"; do
  for X in $LET; do
    S=$SRC/$ID
    if [ -f $S/patch_$X.diff ] && [ -f $S/demo_$X.py ] && [ -f $S/meta_$X.json ]; then
      D=seeded/$ID-$X; mkdir -p $D
      cp $S/patch_$X.diff $D/patch.diff; cp $S/demo_$X.py $D/demo.py; cp $S/meta_$X.json $D/meta.json
      echo "imported $D"
    else
      echo "MISSING files for $ID $X"
    fi
  done
done

#!/bin/sh
# tools/import_seeded.sh C01 C05 ... : copy sub-agent output /tmp/seeded-out/<ID>/{patch,demo,meta}_{A,B} into /verif/seeded/<ID>-{A,B}/
cd "$(dirname "$0")/.."
for ID in "$@"; do
  for X in A B; do
    S=/tmp/seeded-out/$ID
    if [ -f $S/patch_$X.diff ] && [ -f $S/demo_$X.py ] && [ -f $S/meta_$X.json ]; then
      D=seeded/$ID-$X; mkdir -p $D
      cp $S/patch_$X.diff $D/patch.diff; cp $S/demo_$X.py $D/demo.py; cp $S/meta_$X.json $D/meta.json
      echo "imported $D"
    else
      echo "MISSING files for $ID $X"
    fi
  done
done

#!/bin/sh
# tools/trymut.sh <patch-or-'-'> <PID> [tier]   -- run a check against a scratch copy of /repo with a patch applied
# With '-' the patch is read from stdin.  The copy lives under $TMPDIR and is removed afterwards.
set -e
PATCH="$1"; PID="$2"; TIER="${3:-quick}"
D=$(mktemp -d "${TMPDIR:-/tmp}/mutrepo.XXXXXX")
trap 'rm -rf "$D"' EXIT
rsync -a --exclude .git --exclude '__pycache__' --exclude docs --exclude www /repo/ "$D/"
if [ "$PATCH" = "-" ]; then (cd "$D" && patch -p1 -s); else (cd "$D" && patch -p1 -s < "$PATCH"); fi
set +e
VERIF_REPO="$D" VERIF_EVIDENCE_DIR="$D/.evidence" "$(dirname "$0")/../check" "$PID" --tier "$TIER"
echo "rc=$?"

#!/bin/sh
# Offline bootstrap: third-party monitor libraries beside the repository's interpreter.
# Idempotent; .deps is git-ignored, so every fresh restore rebuilds it.
set -e
cd "$(dirname "$0")"
if [ ! -f .deps/.ok ]; then
  rm -rf .deps
  PIP_NO_INDEX=1 /venv/bin/pip install --quiet --no-index --find-links /opt/veriftools/wheels \
      --target .deps icontract deal jsonschema >/dev/null 2>&1 || {
      echo "setup: pip install of icontract/deal/jsonschema failed" >&2; exit 3; }
  touch .deps/.ok
fi
mkdir -p evidence replays
exit 0
